// gosim-rewrite writes scheduler-instrumented copies of the given packages and
// an overlay file for `go build -overlay`.
package main

import (
	"encoding/json"
	"errors"
	"flag"
	"fmt"
	"os"
	"path/filepath"

	"verif/gosim/rewrite"
)

func main() {
	dir := flag.String("dir", "/verif", "module directory to load from")
	tags := flag.String("tags", "verif", "build tags")
	out := flag.String("out", "", "output directory (required)")
	flag.Parse()
	if *out == "" || flag.NArg() == 0 {
		fmt.Fprintln(os.Stderr, "usage: gosim-rewrite -out DIR pkg...")
		os.Exit(2)
	}
	res, err := rewrite.Run(*dir, *tags, flag.Args(), *out)
	if err != nil {
		var u *rewrite.Unsupported
		fmt.Fprintln(os.Stderr, err)
		if errors.As(err, &u) {
			os.Exit(3)
		}
		os.Exit(2)
	}
	for _, w := range res.Warnings {
		fmt.Fprintln(os.Stderr, "warning:", w)
	}
	ov := map[string]interface{}{"Replace": res.Overlay}
	b, _ := json.MarshalIndent(ov, "", " ")
	if err := os.WriteFile(filepath.Join(*out, "overlay.json"), b, 0o644); err != nil {
		fmt.Fprintln(os.Stderr, err)
		os.Exit(2)
	}
	fmt.Printf("rewrote %d files\n", res.Files)
}
