// Check C12: the TCP transport preserves the envelope stream under
// fragmentation, short writes and stalls.
//
// Engine: seqx (sequential bounded-exhaustive fault enumeration). The REAL
// tcpTransport (ctxConn, json encoder/decoder, limited reader) is built over
// the passive scripted connection of package pconn with the verif-tagged hook
// lime.NewTCPTransportFromConn, and every fault plan within the stated bounds
// is executed; nothing is sampled.
//
// Oracle (exactly the property statement):
//
//	S  = the envelopes whose Send returned nil, in order.
//	W1 a Send during which a hard error or a context cancellation was served
//	   returns an error                                        (send-ok-on-fault)
//	W2 the bytes that reached the far side are enc(S[0])..enc(S[n-1]) followed
//	   by at most a strict prefix of the encoding of a failed envelope  (wire)
//	W3 a fault-free receiver fed those bytes returns exactly S  (receiver-*)
//	R1 the envelopes returned by Receive up to its first error are a prefix of
//	   S with equal content (never corrupted/duplicated/reordered/fabricated)
//	                                                                 (corrupt)
//	R2 every envelope whose complete encoding was handed out by the connection
//	   before the stream ended is returned; in particular with no cut and no
//	   hard error the receiver returns exactly S                        (lost)
//	R3 Receive never returns (nil, nil) and never panics      (nil-env, panic)
//
// Transient faults never have to make Send fail, but a Send that does fail is
// not a violation by the statement (S shrinks); the number of such sends is
// reported in the evidence.
package main

import (
	"bytes"
	"context"
	"errors"
	"fmt"
	"os"
	"sort"
	"strconv"
	"strings"
	"sync"
	"sync/atomic"

	lime "github.com/takenet/lime-go"

	"verif/seqx/pconn"
	"verif/seqx/sx"
)

// Input is what a replay file carries: enough to re-run one case.
type Input struct {
	Mode   string   `json:"mode"`             // write | read | duplex | tls
	Stream []string `json:"stream"`           // envelope names of the catalogue, in order
	WPlan  string   `json:"wplan,omitempty"`  // write plan (pconn syntax), one step per Write call
	RPlan  string   `json:"rplan,omitempty"`  // read plan (pconn syntax)
	SendAt int      `json:"sendAt,omitempty"` // duplex: number of Receives before the failing Send
	Pre    bool     `json:"pre,omitempty"`    // duplex: Send with an already cancelled context
	Close  bool     `json:"close,omitempty"`  // tls: sender closes (close_notify) after the last envelope
	TLS    string   `json:"tls,omitempty"`    // tls: protocol version, "tls1.2" or "tls1.3"
	Wire   string   `json:"wire,omitempty"`   // informational: bytes that reached the far side
}

type failure struct {
	side, clause string
	class        []string
	msg          string
	in           Input
	cost         [3]int
	tie          string
}

func (f *failure) key() string { return f.side + ":" + f.clause + ":" + strings.Join(f.class, "+") }

func (f *failure) less(g *failure) bool {
	if f.cost != g.cost {
		for i := range f.cost {
			if f.cost[i] != g.cost[i] {
				return f.cost[i] < g.cost[i]
			}
		}
	}
	return f.tie < g.tie
}

type aggregator struct {
	mu sync.Mutex
	m  map[string]*failure
}

func (a *aggregator) add(f *failure) {
	if f == nil {
		return
	}
	sort.Strings(f.class)
	if len(f.class) == 0 {
		f.class = []string{"plain"}
	}
	f.tie = strings.Join(f.in.Stream, ",") + "|" + f.in.WPlan + "|" + f.in.RPlan + "|" + strconv.Itoa(f.in.SendAt)
	k := f.key()
	a.mu.Lock()
	if old, ok := a.m[k]; !ok || f.less(old) {
		a.m[k] = f
	}
	a.mu.Unlock()
}

func subMultiset(a, b []string) bool { // a ⊊ b, both sorted
	if len(a) >= len(b) {
		return false
	}
	i := 0
	for _, x := range b {
		if i < len(a) && a[i] == x {
			i++
		}
	}
	return i == len(a)
}

// minimal returns the failures whose fault class is minimal (by multiset
// inclusion) among the failures of the same side and clause: the signature
// names the smallest class of plans that fails, whatever the enumeration
// order was.
func (a *aggregator) minimal() []*failure {
	var out []*failure
	for _, f := range a.m {
		dominated := false
		for _, g := range a.m {
			if g != f && g.side == f.side && g.clause == f.clause {
				gc := g.class
				if len(gc) == 1 && gc[0] == "plain" {
					gc = nil
				}
				if subMultiset(gc, f.class) && !(len(f.class) == 1 && f.class[0] == "plain") {
					dominated = true
					break
				}
			}
		}
		if !dominated {
			out = append(out, f)
		}
	}
	sort.Slice(out, func(i, j int) bool { return out[i].key() < out[j].key() })
	return out
}

var (
	catalogue = map[string]*pconn.Item{}
	agg       = &aggregator{m: map[string]*failure{}}
	rep       *sx.Report
	bg        = context.Background()

	nWrite1, nWrite2, nReadSplit, nReadChunk, nReadCut, nDuplex, nTLS atomic.Int64
	nSendFailedTransient, nSendsTotal, nTimeoutsServed                atomic.Int64
	nRecvCalls                                                        atomic.Int64
)

func items(names []string) []*pconn.Item {
	out := make([]*pconn.Item, len(names))
	for i, n := range names {
		it, ok := catalogue[n]
		if !ok {
			fmt.Fprintf(os.Stderr, "TOOL-ERROR: unknown envelope %q\n", n)
			os.Exit(2)
		}
		out[i] = it
	}
	return out
}

func quote(b []byte) string {
	s := strconv.Quote(string(b))
	if len(s) > 700 {
		s = s[:340] + " ...[" + strconv.Itoa(len(b)) + " bytes]... " + s[len(s)-340:]
	}
	return s
}

// worker holds per-goroutine scratch state.
type worker struct {
	wc, rc *pconn.Conn
	key    []byte
	got    []string
	lens   []int
}

func newWorker() *worker {
	return &worker{wc: pconn.New(nil, nil, nil), rc: pconn.New(nil, nil, nil)}
}

func (w *worker) eval(prefix string, names []string, p1, p2 pconn.Plan, nontrivial bool) {
	k := append(w.key[:0], prefix...)
	for _, n := range names {
		k = append(k, '|')
		k = append(k, n...)
	}
	k = append(k, '#')
	k = p1.AppendTo(k)
	if p2 != nil {
		k = append(k, '#')
		k = p2.AppendTo(k)
	}
	w.key = k
	rep.Eval(string(k), nontrivial)
}

// receiveAll builds a real transport over conn and calls Receive until its
// first error (at most max calls). It returns the canonical contents of the
// envelopes returned and an anomaly ("" if none).
func receiveAll(conn *pconn.Conn, got []string, max int) (out []string, anomaly string, lastErr error) {
	out = got[:0]
	defer func() {
		if p := recover(); p != nil {
			anomaly = fmt.Sprintf("panic: %v", p)
		}
	}()
	rx := lime.NewTCPTransportFromConn(conn, nil, true)
	for i := 0; i < max; i++ {
		nRecvCalls.Add(1)
		env, err := pconn.Receive(bg, rx)
		if err != nil {
			return out, "", err
		}
		if env == nil {
			return out, "nil-env", nil
		}
		c, err := pconn.Canon(env)
		if err != nil {
			return out, "unmarshalable envelope returned: " + err.Error(), nil
		}
		out = append(out, c)
	}
	return out, "", nil
}

// judge compares the received sequence with S. mustHave is the number of
// leading envelopes of S whose complete encoding was handed out.
func judge(S []*pconn.Item, got []string, mustHave int) (clause, detail string) {
	for i, g := range got {
		if i >= len(S) {
			return "corrupt", fmt.Sprintf("receiver returned %d envelopes but only %d were sent; extra #%d = %s", len(got), len(S), i, g)
		}
		if g != S[i].Canon {
			kind := "corrupted or fabricated"
			for j, s := range S {
				if j != i && s.Canon == g {
					kind = fmt.Sprintf("duplicated or reordered (equals sent #%d)", j)
				}
			}
			return "corrupt", fmt.Sprintf("received #%d is %s: got %s want %s", i, kind, g, S[i].Canon)
		}
	}
	if len(got) < mustHave {
		return "lost", fmt.Sprintf("receiver returned %d envelope(s) then an error, although the complete encodings of %d were handed out by the connection", len(got), mustHave)
	}
	return "", ""
}

func writeClass(plan pconn.Plan) []string {
	var c []string
	for _, a := range plan {
		switch a.K {
		case 's':
			if a.N > 0 {
				c = append(c, "short")
			} else {
				c = append(c, "stall")
			}
		case 'x':
			if a.N > 0 {
				c = append(c, "hardN")
			} else {
				c = append(c, "hard0")
			}
		case 'c':
			if a.N > 0 {
				c = append(c, "cancelN")
			} else {
				c = append(c, "cancel0")
			}
		}
	}
	return c
}

func hasKind(plan pconn.Plan, k byte) bool {
	for _, a := range plan {
		if a.K == k {
			return true
		}
	}
	return false
}

// evalWrite runs the real Send for every envelope of the stream over a
// connection scripted by plan and applies W1-W3. It returns the lengths of
// the Write calls that were made (valid until the worker's next run).
func (w *worker) evalWrite(names []string, stream []*pconn.Item, plan pconn.Plan) (*failure, []int) {
	w.wc.Reset(nil, nil, plan)
	cancelPlan := hasKind(plan, 'c')
	tx := lime.NewTCPTransportFromConn(w.wc, nil, false)
	var S []*pconn.Item
	var failed []*pconn.Item
	var okOnFault = -1
	transientOnly := !hasKind(plan, 'x') && !hasKind(plan, 'c')
	spunAt := -1
	for i, it := range stream {
		w0 := w.wc.Writes
		// every Send has its own context: a cancellation ends that one call, the
		// following envelopes are sent with a live context again
		ctx := bg
		if cancelPlan {
			c2, cancel := context.WithCancel(bg)
			ctx = c2
			w.wc.OnCancel = cancel
			defer cancel()
		}
		err := pconn.Send(ctx, tx, it.Env)
		w1 := w.wc.Writes
		nSendsTotal.Add(1)
		if err == nil {
			S = append(S, it)
			if h := w.wc.HardWriteAt; h >= w0 && h < w1 {
				okOnFault = i
			}
		} else {
			if errors.Is(err, pconn.ErrSpin) {
				spunAt = i
			}
			failed = append(failed, it)
			if transientOnly {
				nSendFailedTransient.Add(1)
			}
		}
	}
	nTimeoutsServed.Add(int64(w.wc.TimeoutsServed))
	far := w.wc.Out
	mk := func(clause, msg string) *failure {
		return &failure{side: "write", clause: clause, class: writeClass(plan), msg: msg,
			in:   Input{Mode: "write", Stream: names, WPlan: plan.String(), Wire: quote(far)},
			cost: [3]int{len(plan), len(pconn.Concat(stream)), sumN(plan)}}
	}
	if spunAt >= 0 {
		return mk("send-never-returns", fmt.Sprintf("Send #%d (%s) did not return on a connection that never blocks: it keeps retrying", spunAt, stream[spunAt].Name)), w.wc.WriteLens
	}
	if okOnFault >= 0 {
		return mk("send-ok-on-fault", fmt.Sprintf("Send #%d (%s) returned nil although Write call %d served a hard error / cancelled context",
			okOnFault, stream[okOnFault].Name, w.wc.HardWriteAt)), w.wc.WriteLens
	}
	// W2
	base := pconn.Concat(S)
	wireOK := bytes.HasPrefix(far, base)
	// A failed Send may have put everything but the final newline on the
	// wire; the receiver then legitimately decodes that envelope although the
	// sender was told "error" (delivery of a failed Send is undetermined - no
	// implementation can retract bytes). Such an envelope is tolerated as one
	// optional extra element at the end of the received sequence.
	var optional *pconn.Item
	if wireOK {
		rest := far[len(base):]
		if len(rest) > 0 {
			wireOK = false
			for _, f := range failed {
				if len(rest) < len(f.Enc) && bytes.HasPrefix(f.Enc, rest) {
					wireOK = true
					if len(rest) == len(f.Enc)-1 {
						optional = f
					}
				}
			}
		}
	}
	// W3: what a fault-free receiver makes of the far side
	w.rc.Reset(far, nil, nil)
	got, anomaly, lastErr := receiveAll(w.rc, w.got, len(stream)+2)
	w.got = got
	rcvDesc := func() string {
		return fmt.Sprintf("a fault-free receiver of these bytes returned %d envelope(s) %v then %v", len(got), got, lastErr)
	}
	if !wireOK {
		sent := make([]string, len(S))
		for i, s := range S {
			sent[i] = s.Name
		}
		return mk("wire", fmt.Sprintf("Send returned nil for %v but the far side holds %s, which is not the concatenation of their encodings (+ a strict prefix of a failed one); %s",
			sent, quote(far), rcvDesc())), w.wc.WriteLens
	}
	if anomaly != "" {
		return mk("receiver-"+strings.SplitN(anomaly, ":", 2)[0], anomaly+"; "+rcvDesc()), w.wc.WriteLens
	}
	expect := S
	if optional != nil && len(got) == len(S)+1 {
		expect = append(append([]*pconn.Item(nil), S...), optional)
	}
	if clause, detail := judge(expect, got, len(S)); clause != "" {
		return mk("receiver-"+clause, detail+"; "+rcvDesc()), w.wc.WriteLens
	}
	return nil, w.wc.WriteLens
}

func sumN(p pconn.Plan) int {
	s := 0
	for _, a := range p {
		s += a.N
	}
	return s
}

func readClass(o pconn.ReadOutcome) []string {
	var c []string
	if o.Segments >= 2 {
		c = append(c, "split")
	}
	if o.Stalls > 0 {
		c = append(c, "stall")
	}
	if o.DataTO > 0 {
		c = append(c, "data+timeout")
	}
	// the way the stream ends: nothing (io.EOF after the complete stream),
	// or exactly one of the following
	switch {
	case o.DataEOF:
		c = append(c, "data+eof")
	case o.DataHard:
		c = append(c, "data+hard")
	case o.HardEnd:
		c = append(c, "hard")
	case o.Cut:
		c = append(c, "cut-eof")
	}
	return c
}

// evalRead feeds wire (the far side of a clean Send of S) to a real receiving
// transport under the read plan and applies R1-R3.
func (w *worker) evalRead(names []string, S []*pconn.Item, wire []byte, plan pconn.Plan) *failure {
	w.rc.Reset(wire, plan, nil)
	got, anomaly, lastErr := receiveAll(w.rc, w.got, len(S)+2)
	w.got = got
	nTimeoutsServed.Add(int64(w.rc.TimeoutsServed))
	o := plan.Outcome(len(wire))
	mustHave, cum := 0, 0
	for _, it := range S {
		cum += it.Size()
		if cum <= o.Delivered {
			mustHave++
		}
	}
	mk := func(clause, msg string) *failure {
		return &failure{side: "read", clause: clause, class: readClass(o),
			msg: fmt.Sprintf("%s [stream %s delivered under read plan %q: %d of %d bytes handed out; Receive returned %v then %v]",
				msg, quote(wire), plan.String(), o.Delivered, len(wire), got, lastErr),
			in:   Input{Mode: "read", Stream: names, RPlan: plan.String()},
			cost: [3]int{len(plan), len(wire), sumN(plan)}}
	}
	if anomaly != "" {
		return mk(strings.SplitN(anomaly, ":", 2)[0], anomaly)
	}
	if clause, detail := judge(S, got, mustHave); clause != "" {
		return mk(clause, detail)
	}
	return nil
}

// evalDuplex: one transport carries an inbound stream while one of its Sends
// fails because the caller's context is cancelled (the connection itself is
// healthy). The failed Send is the only affected operation: the inbound
// stream has no fault, so Receive must still return exactly what the peer
// sent.
func (w *worker) evalDuplex(names []string, S []*pconn.Item, wire []byte, rplan, wplan pconn.Plan, sendAt int, pre bool) *failure {
	w.rc.Reset(wire, rplan, wplan)
	ctx, cancel := context.WithCancel(bg)
	defer cancel()
	w.rc.OnCancel = cancel
	if pre {
		cancel()
	}
	out := catalogue["msg"]
	in := Input{Mode: "duplex", Stream: names, RPlan: rplan.String(), WPlan: wplan.String(), SendAt: sendAt, Pre: pre}
	mk := func(clause, msg string) *failure {
		return &failure{side: "duplex", clause: clause, class: []string{"send-cancelled"}, msg: msg, in: in,
			cost: [3]int{len(rplan) + len(wplan), len(wire), sumN(rplan) + sumN(wplan)}}
	}
	var res *failure
	func() {
		defer func() {
			if p := recover(); p != nil {
				res = mk("panic", fmt.Sprint(p))
			}
		}()
		tr := lime.NewTCPTransportFromConn(w.rc, nil, true)
		got := w.got[:0]
		var lastErr error
		sendErr := error(nil)
		for i := 0; i <= len(S)+1; i++ {
			if i == sendAt {
				sendErr = pconn.Send(ctx, tr, out.Env)
				if sendErr == nil {
					res = mk("send-ok-on-fault", "Send with a cancelled context returned nil")
					return
				}
			}
			env, err := pconn.Receive(bg, tr)
			if err != nil {
				lastErr = err
				break
			}
			if env == nil {
				res = mk("nil-env", "Receive returned (nil, nil)")
				return
			}
			c, _ := pconn.Canon(env)
			got = append(got, c)
		}
		w.got = got
		if clause, detail := judge(S, got, len(S)); clause != "" {
			res = mk(clause, fmt.Sprintf("%s [inbound %s under read plan %q; after %d Receive(s) a Send failed with %v (write plan %q, pre-cancelled=%v); Receive returned %v then %v]",
				detail, quote(wire), rplan.String(), sendAt, sendErr, wplan.String(), pre, got, lastErr))
		}
	}()
	return res
}

// ---------------------------------------------------------------- jobs

type job func(w *worker)

type pool struct {
	ch      chan job
	wg      sync.WaitGroup
	expired atomic.Bool
}

func newPool(n int) *pool {
	p := &pool{ch: make(chan job, 256)}
	for i := 0; i < n; i++ {
		p.wg.Add(1)
		go func() {
			defer p.wg.Done()
			w := newWorker()
			for j := range p.ch {
				if p.expired.Load() {
					continue
				}
				if rep.Expired() {
					p.expired.Store(true)
					continue
				}
				j(w)
			}
		}()
	}
	return p
}

func (p *pool) submit(j job) { p.ch <- j }
func (p *pool) wait()        { close(p.ch); p.wg.Wait() }

// kset is the set of short-write lengths tried for a Write call of n bytes:
// every length in [0,n) when grid is nil, otherwise the grid points below n.
func kset(n int, grid []int) []int {
	if grid == nil {
		ks := make([]int, n)
		for i := range ks {
			ks[i] = i
		}
		return ks
	}
	var ks []int
	for _, g := range grid {
		if g >= 0 && g < n {
			ks = append(ks, g)
		}
	}
	return ks
}

var faultKinds = []byte{'s', 'x', 'c'}

// enumWrite submits every write plan with at most maxFaults (1 or 2) faults
// for the stream. grid2 restricts the lengths tried for plans with two
// faults (nil: every length).
func enumWrite(p *pool, names []string, maxFaults int, grid2 []int) {
	stream := items(names)
	w0 := newWorker()
	f, lens := w0.evalWrite(names, stream, nil)
	agg.add(f)
	w0.eval("W", names, nil, nil, false)
	nWrite1.Add(1)
	root := append([]int(nil), lens...)
	// a stall of any length is transient: several zero-progress timeouts in a row before the
	// connection takes bytes again (also after a first short write)
	for j := range root {
		for _, reps := range []int{3, 6} {
			for _, first := range []int{0, 1} {
				if first >= root[j] {
					continue
				}
				pl := make(pconn.Plan, 0, j+reps+1)
				for i := 0; i < j; i++ {
					pl = append(pl, pconn.Act{K: 'a'})
				}
				if first > 0 {
					pl = append(pl, pconn.Act{K: 's', N: first})
				}
				for i := 0; i < reps; i++ {
					pl = append(pl, pconn.Act{K: 's', N: 0})
				}
				p.submit(func(w *worker) {
					f, _ := w.evalWrite(names, stream, pl)
					agg.add(f)
					w.eval("W", names, pl, nil, true)
					nWrite1.Add(1)
				})
			}
		}
	}
	for j := range root {
		j := j
		for _, kind := range faultKinds {
			kind := kind
			for k := 0; k < root[j]; k++ {
				k := k
				p.submit(func(w *worker) {
					p1 := make(pconn.Plan, 0, j+8)
					for i := 0; i < j; i++ {
						p1 = append(p1, pconn.Act{K: 'a'})
					}
					p1 = append(p1, pconn.Act{K: kind, N: k})
					f, lens := w.evalWrite(names, stream, p1)
					agg.add(f)
					w.eval("W", names, p1, nil, true)
					nWrite1.Add(1)
					if maxFaults < 2 {
						return
					}
					if grid2 != nil && !inGrid(grid2, k) {
						return
					}
					w.lens = append(w.lens[:0], lens...)
					l1 := append([]int(nil), w.lens...)
					for j2 := j + 1; j2 < len(l1); j2++ {
						p2 := append(pconn.Plan(nil), p1...)
						for i := j + 1; i < j2; i++ {
							p2 = append(p2, pconn.Act{K: 'a'})
						}
						p2 = append(p2, pconn.Act{})
						for _, kind2 := range faultKinds {
							for _, k2 := range kset(l1[j2], grid2) {
								p2[len(p2)-1] = pconn.Act{K: kind2, N: k2}
								f, _ := w.evalWrite(names, stream, p2)
								agg.add(f)
								w.eval("W", names, p2, nil, true)
								nWrite2.Add(1)
							}
						}
					}
				})
			}
		}
	}
}

// enumWriteGrid submits every write plan with one fault (and, for faults that leave the
// connection usable, a second one) whose accepted-byte counts are taken from a grid: for
// streams too long to try every count. The Write calls are the ones the transport makes, so
// an envelope handed over in several pieces gets its faults at the start of every piece.
func enumWriteGrid(p *pool, names []string, grid []int) {
	stream := items(names)
	w0 := newWorker()
	f, lens := w0.evalWrite(names, stream, nil)
	agg.add(f)
	w0.eval("W", names, nil, nil, false)
	nWrite1.Add(1)
	root := append([]int(nil), lens...)
	for j := range root {
		j := j
		for _, kind := range faultKinds {
			kind := kind
			ks := kset(root[j], grid)
			for _, d := range []int{root[j] - 2, root[j] - 1} {
				if d > 0 && !inGrid(ks, d) {
					ks = append(ks, d)
				}
			}
			for _, k := range ks {
				k := k
				p.submit(func(w *worker) {
					p1 := make(pconn.Plan, 0, j+8)
					for i := 0; i < j; i++ {
						p1 = append(p1, pconn.Act{K: 'a'})
					}
					p1 = append(p1, pconn.Act{K: kind, N: k})
					f, lens := w.evalWrite(names, stream, p1)
					agg.add(f)
					w.eval("W", names, p1, nil, true)
					nWrite1.Add(1)
					l1 := append([]int(nil), lens...)
					for j2 := j + 1; j2 < len(l1); j2++ {
						p2 := append(pconn.Plan(nil), p1...)
						for i := j + 1; i < j2; i++ {
							p2 = append(p2, pconn.Act{K: 'a'})
						}
						p2 = append(p2, pconn.Act{})
						for _, kind2 := range faultKinds {
							for _, k2 := range kset(l1[j2], []int{0, 1, 4096, 65536}) {
								p2[len(p2)-1] = pconn.Act{K: kind2, N: k2}
								f, _ := w.evalWrite(names, stream, p2)
								agg.add(f)
								w.eval("W", names, p2, nil, true)
								nWrite2.Add(1)
							}
						}
					}
				})
			}
		}
	}
}

func inGrid(g []int, k int) bool {
	i := sort.SearchInts(g, k)
	return i < len(g) && g[i] == k
}

// cleanWire sends the stream through a real transport over a fault-free
// connection and returns what reached the far side (and checks it against
// the reference encodings).
func cleanWire(names []string) ([]*pconn.Item, []byte) {
	stream := items(names)
	c := pconn.New(nil, nil, nil)
	tx := lime.NewTCPTransportFromConn(c, nil, false)
	for _, it := range stream {
		if err := pconn.Send(bg, tx, it.Env); err != nil {
			agg.add(&failure{side: "write", clause: "send-failed-without-fault", msg: err.Error(),
				in: Input{Mode: "write", Stream: names}})
		}
	}
	wire := append([]byte(nil), c.Out...)
	if !bytes.Equal(wire, pconn.Concat(stream)) {
		agg.add(&failure{side: "write", clause: "wire", msg: "fault-free Send does not produce the reference encoding: " + quote(wire),
			in: Input{Mode: "write", Stream: names, Wire: quote(wire)}})
	}
	return stream, wire
}

// readVariants evaluates one split (given by cuts) in all its variants:
// plain; a stall before read i for every i (including the read that returns
// io.EOF); stalls before every read; read i delivered together with a
// timeout, for every i; all reads delivered together with a timeout.
func (w *worker) readVariants(names []string, S []*pconn.Item, wire []byte, cuts []int, ctr *atomic.Int64, buf *pconn.Plan) {
	n := len(wire)
	base := pconn.SegmentsPlan((*buf)[:0], n, cuts)
	r := len(base)
	run := func(p pconn.Plan) {
		agg.add(w.evalRead(names, S, wire, p))
		w.eval("R", names, p, nil, len(p) > 1 || (len(p) == 1 && p[0].K != 'd'))
		ctr.Add(1)
	}
	run(base)
	scratch := make(pconn.Plan, 0, 2*r+2)
	for i := 0; i <= r; i++ { // stall before read i (i==r: before the EOF read)
		p := append(scratch[:0], base[:i]...)
		p = append(p, pconn.Act{K: 't'})
		p = append(p, base[i:]...)
		run(p)
	}
	p := scratch[:0]
	for i := 0; i < r; i++ {
		p = append(p, pconn.Act{K: 't'}, base[i])
	}
	p = append(p, pconn.Act{K: 't'})
	run(p)
	for i := 0; i < r; i++ { // read i together with a timeout
		p := append(scratch[:0], base...)
		p[i].K = 'T'
		run(p)
	}
	if r > 1 {
		p = append(scratch[:0], base...)
		for i := range p {
			p[i].K = 'T'
		}
		run(p)
	}
	*buf = base
}

// enumReadSplits: every split of the stream into at most maxReads reads at
// every byte boundary (or at the boundaries of grid for cut tuples of size
// >= gridFrom), in all variants.
func enumReadSplits(p *pool, names []string, maxReads int) {
	S, wire := cleanWire(names)
	n := len(wire)
	for k := 0; k < maxReads; k++ {
		k := k
		if k == 0 {
			p.submit(func(w *worker) {
				var buf pconn.Plan
				w.readVariants(names, S, wire, nil, &nReadSplit, &buf)
			})
			continue
		}
		for first := 1; first <= n-k; first++ {
			first := first
			p.submit(func(w *worker) {
				var buf pconn.Plan
				pconn.ForEachCuts(n, k, first, func(cuts []int) {
					w.readVariants(names, S, wire, cuts, &nReadSplit, &buf)
				})
			})
		}
	}
}

// enumReadGrid: splits whose cut points are taken from a grid (large stream).
func enumReadGrid(p *pool, names []string, k int, grid []int) {
	S, wire := cleanWire(names)
	n := len(wire)
	g := kset(n, grid)
	if len(g) > 0 && g[0] == 0 {
		g = g[1:]
	}
	for a := range g {
		a := a
		p.submit(func(w *worker) {
			var buf pconn.Plan
			cuts := make([]int, k)
			var rec func(i, from int)
			rec = func(i, from int) {
				if i == k {
					w.readVariants(names, S, wire, cuts, &nReadSplit, &buf)
					return
				}
				for b := from; b < len(g); b++ {
					cuts[i] = g[b]
					rec(i+1, b+1)
				}
			}
			cuts[0] = g[a]
			rec(1, a+1)
		})
	}
}

// enumReadChunks: the whole stream in reads of c bytes, for each c; plain,
// with a stall before every read, and every read together with a timeout.
func enumReadChunks(p *pool, names []string, sizes []int) {
	S, wire := cleanWire(names)
	n := len(wire)
	for _, c := range sizes {
		c := c
		p.submit(func(w *worker) {
			var plain, stall, dto pconn.Plan
			for off := 0; off < n; off += c {
				plain = append(plain, pconn.Act{K: 'd', N: c})
				stall = append(stall, pconn.Act{K: 't'}, pconn.Act{K: 'd', N: c})
				dto = append(dto, pconn.Act{K: 'T', N: c})
			}
			stall = append(stall, pconn.Act{K: 't'})
			for _, pl := range []pconn.Plan{plain, stall, dto} {
				agg.add(w.evalRead(names, S, wire, pl))
				w.eval("R", names, pl, nil, true)
				nReadChunk.Add(1)
			}
		})
	}
}

// enumReadCuts: the stream ends after c bytes, for every c in [0,n]: the c
// bytes arrive in one read, in two reads split at every boundary (when
// twoSeg), or byte by byte; the end is io.EOF or a hard error, either as a
// separate answer or together with the last data (E/X), optionally preceded
// by a stall.
func enumReadCuts(p *pool, names []string, twoSeg bool) {
	S, wire := cleanWire(names)
	n := len(wire)
	for c := 0; c <= n; c++ {
		c := c
		p.submit(func(w *worker) {
			run := func(pl pconn.Plan) {
				agg.add(w.evalRead(names, S, wire, pl))
				w.eval("R", names, pl, nil, true)
				nReadCut.Add(1)
			}
			ends := func(prefix pconn.Plan, last int) {
				// separate terminal answer
				for _, e := range []byte{'e', 'x'} {
					pl := append(append(pconn.Plan(nil), prefix...), pconn.Act{K: 'd', N: last}, pconn.Act{K: e})
					if last == 0 {
						pl = append(append(pconn.Plan(nil), prefix...), pconn.Act{K: e})
					}
					run(pl)
					if last > 0 {
						pl = append(append(pconn.Plan(nil), prefix...), pconn.Act{K: 'd', N: last}, pconn.Act{K: 't'}, pconn.Act{K: e})
						run(pl)
					}
				}
				// terminal answer together with the last data
				if last > 0 {
					for _, e := range []byte{'E', 'X'} {
						run(append(append(pconn.Plan(nil), prefix...), pconn.Act{K: e, N: last}))
					}
				}
			}
			ends(nil, c)
			if twoSeg {
				for b := 1; b < c; b++ {
					ends(pconn.Plan{{K: 'd', N: b}}, c-b)
				}
			}
			if c > 1 {
				var one pconn.Plan
				for i := 0; i < c-1; i++ {
					one = append(one, pconn.Act{K: 'd', N: 1})
				}
				ends(one, 1)
			}
		})
	}
}

func enumDuplex(p *pool, names []string) {
	S, wire := cleanWire(names)
	n := len(wire)
	outLen := catalogue["msg"].Size()
	for sendAt := 0; sendAt <= len(S); sendAt++ {
		sendAt := sendAt
		for cut := 0; cut < n; cut++ {
			cut := cut
			p.submit(func(w *worker) {
				var rplan pconn.Plan
				if cut > 0 {
					rplan = pconn.Plan{{K: 'd', N: cut}, {K: 'd', N: n - cut}}
				}
				one := func(wplan pconn.Plan, pre bool) {
					agg.add(w.evalDuplex(names, S, wire, rplan, wplan, sendAt, pre))
					k := fmt.Sprintf("D%d/%v", sendAt, pre)
					w.eval(k, names, rplan, wplan, true)
					nDuplex.Add(1)
				}
				one(nil, true)
				for k := 0; k < outLen; k++ {
					one(pconn.Plan{{K: 'c', N: k}}, false)
				}
			})
		}
	}
}

// ---------------------------------------------------------------- main

func replay(in Input) {
	w := newWorker()
	rp, err1 := pconn.Parse(in.RPlan)
	wp, err2 := pconn.Parse(in.WPlan)
	if err1 != nil || err2 != nil {
		fmt.Fprintln(os.Stderr, "TOOL-ERROR: bad plan in replay file:", err1, err2)
		os.Exit(2)
	}
	var f *failure
	switch in.Mode {
	case "write":
		f, _ = w.evalWrite(in.Stream, items(in.Stream), wp)
	case "read":
		S, wire := cleanWire(in.Stream)
		f = w.evalRead(in.Stream, S, wire, rp)
	case "duplex":
		S, wire := cleanWire(in.Stream)
		f = w.evalDuplex(in.Stream, S, wire, rp, wp, in.SendAt, in.Pre)
	case "tls":
		f = evalTLS(in, rp, wp)
	default:
		fmt.Fprintln(os.Stderr, "TOOL-ERROR: unknown mode", in.Mode)
		os.Exit(2)
	}
	agg.add(f)
}

func sigOf(f *failure) string { return f.key() }

func main() {
	rule := "C12 fault_enumeration over the real tcpTransport on a passive scripted net.Conn. " +
		"Streams: every 1-envelope stream of the 5 kinds (message, notification, request, response, session; 45-124 bytes each), " +
		"ordered pairs and triples of kinds as listed in coverage.streams (thorough: all 25 pairs, 25 triples, one 3-envelope stream around an 8 KiB message). " +
		"WRITE side: every plan of <=2 faults over the Write calls of the stream, fault in {short write of EVERY length n in [0,len) + temporary timeout, " +
		"hard error after n bytes, n bytes + timeout + context cancelled}; 8 KiB stream: every single fault at every length, pairs on a stated grid. " +
		"READ side: the far-side bytes of a clean Send under EVERY split into <=3 reads at every byte boundary (thorough: <=4 reads for streams <=115 bytes; 8 KiB stream: 2 reads at every boundary, 3 reads on a stated grid), " +
		"each split plain / with a stall before each single read / before all reads / each read (and all reads) returned together with a temporary timeout; " +
		"fixed-size reads of 1,2,3,5,7 bytes; the stream ended after EVERY offset c by io.EOF or a hard error, as a separate answer or together with the last bytes, " +
		"the c bytes arriving in 1 read, 2 reads (every boundary) or byte by byte. DUPLEX: inbound pair while a Send on the same transport fails on a cancelled context at every length. " +
		"A plan is non-trivial when it contains at least one fault, stall or split (i.e. is not the default delivery)."
	rep = sx.New("C12", "fault_enumeration", rule, []string{
		"encoding/json, crypto/tls and the Go runtime are trusted",
		"the scripted connection follows the io.Reader/io.Writer/net.Conn contracts: a Read may return n>0 together with an error (crypto/tls does so with io.EOF on close_notify); a Write returns n<len(b) only together with an error",
		"operation contexts are never cancelled except by the explicit 'context cancelled' fault; all plans are finite, so ctxConn's retry loops terminate",
		"envelope equality = equality of json.Marshal of the received and the sent pointer",
	})
	for _, it := range pconn.SmallEnvelopes() {
		catalogue[it.Name] = it
	}
	big := pconn.PaddedMessage("big", 8192)
	big.Name = "big8k"
	catalogue["big8k"] = big
	huge := pconn.PaddedMessage("huge", 100<<10)
	huge.Name = "big100k"
	catalogue["big100k"] = huge

	var in Input
	if _, ok := rep.ReplayInput(&in); ok {
		replay(in)
		for _, f := range agg.minimal() {
			rep.Fail(sigOf(f), f.msg, f.in)
		}
		rep.Finish()
		return
	}

	kinds := []string{"msg", "not", "req", "rsp", "ses"}
	var streams [][]string
	for _, k := range kinds {
		streams = append(streams, []string{k})
	}
	if rep.Thorough() {
		for _, a := range kinds {
			for _, b := range kinds {
				streams = append(streams, []string{a, b})
			}
		}
		for i := range kinds {
			for j := range kinds {
				streams = append(streams, []string{kinds[i], kinds[j], kinds[(2*i+j+1)%5]})
			}
		}
	} else {
		for i := range kinds {
			streams = append(streams, []string{kinds[i], kinds[(i+1)%5]})
			streams = append(streams, []string{kinds[i], kinds[(i+3)%5]})
		}
		streams = append(streams, []string{"req", "req"})
		for i := 0; i < 3; i++ {
			streams = append(streams, []string{kinds[i], kinds[(i+2)%5], kinds[(i+4)%5]})
		}
	}
	var streamNames []string
	for _, s := range streams {
		streamNames = append(streamNames, strings.Join(s, ","))
	}
	rep.Set("streams", streamNames)

	// a few hand-picked sample plans with what was observed
	sample := func(in Input) {
		agg2 := agg
		agg = &aggregator{m: map[string]*failure{}}
		replay(in)
		verdict := "ok"
		for _, f := range agg.minimal() {
			verdict = "VIOLATION " + f.key()
		}
		agg = agg2
		rep.Sample(map[string]interface{}{"input": in, "verdict": verdict})
	}
	sample(Input{Mode: "write", Stream: []string{"req"}, WPlan: "s3"})
	sample(Input{Mode: "write", Stream: []string{"req", "not"}, WPlan: "a x10"})
	sample(Input{Mode: "write", Stream: []string{"req", "not"}, WPlan: "s0 c7"})
	sample(Input{Mode: "read", Stream: []string{"msg", "not"}, RPlan: "d40 t d60 d27"})
	sample(Input{Mode: "read", Stream: []string{"msg", "not"}, RPlan: "d1*127"})
	sample(Input{Mode: "read", Stream: []string{"req", "ses"}, RPlan: "d50 x"})
	sample(Input{Mode: "read", Stream: []string{"req"}, RPlan: "E45"})
	sample(Input{Mode: "duplex", Stream: []string{"req", "not"}, RPlan: "d30 d67", WPlan: "c5", SendAt: 1})

	p := newPool(rep.Workers)
	for _, s := range streams {
		enumWrite(p, s, 2, nil)
	}
	maxReads := 3
	for _, s := range streams {
		enumReadSplits(p, s, maxReads)
		enumReadChunks(p, s, []int{1, 2, 3, 5, 7})
		enumReadCuts(p, s, true)
	}
	for _, s := range [][]string{{"req", "not"}, {"ses", "msg"}, {"rsp", "req"}} {
		enumDuplex(p, s)
	}
	// both tiers: an envelope far larger than any buffer of the decoder (100 KiB), with small
	// envelopes right behind it, delivered coalesced, in large and small chunks and split in
	// two around the envelope boundaries (what was read ahead must not be lost)
	{
		hugeS := []string{"req", "big100k", "not", "msg"}
		_, hw := cleanWire(hugeS)
		hn := len(hw)
		b1 := catalogue["req"].Size()
		b2 := b1 + huge.Size()
		b3 := b2 + catalogue["not"].Size()
		var hgrid []int
		for _, m := range []int{b1, b2, b3, 4096, 65536, 65536 + b1, hn - 1} {
			for d := -1; d <= 1; d++ {
				if m+d > 0 && m+d < hn {
					hgrid = append(hgrid, m+d)
				}
			}
		}
		sort.Ints(hgrid)
		rep.Set("huge_stream", map[string]interface{}{"stream": "req,big100k,not,msg", "bytes": hn, "grid_points": len(hgrid)})
		enumReadGrid(p, hugeS, 2, hgrid)
		enumReadChunks(p, hugeS, []int{4096, 65536, 1 << 20})
		// write faults on the same stream: accepted-byte counts around the buffer sizes a
		// transport might hand the connection (4 KiB, 32 KiB, 64 KiB) and at both ends of each Write
		enumWriteGrid(p, hugeS, []int{0, 1, 2, 511, 512, 513, 4095, 4096, 4097, 32767, 32768, 32769, 65535, 65536, 65537})
	}
	if rep.Thorough() {
		n4 := 0
		for _, s := range streams {
			if len(pconn.Concat(items(s))) <= 115 {
				n4++
				s := s
				S, wire := cleanWire(s)
				n := len(wire)
				for first := 1; first <= n-3; first++ {
					first := first
					p.submit(func(w *worker) {
						var buf pconn.Plan
						pconn.ForEachCuts(n, 3, first, func(cuts []int) {
							w.readVariants(s, S, wire, cuts, &nReadSplit, &buf)
						})
					})
				}
			}
		}
		rep.Set("streams_with_4_reads", n4)
		// the 8 KiB stream
		bigS := []string{"req", "big8k", "not"}
		_, wire := cleanWire(bigS)
		n := len(wire)
		marks := []int{0, n, catalogue["req"].Size(), catalogue["req"].Size() + big.Size()}
		for m := 512; m < n+512; m += 512 {
			marks = append(marks, m, m+catalogue["req"].Size())
		}
		gset := map[int]bool{}
		for _, m := range marks {
			for d := -2; d <= 2; d++ {
				if m+d >= 0 && m+d <= n {
					gset[m+d] = true
				}
			}
		}
		for o := 0; o <= n; o += 61 {
			gset[o] = true
		}
		var grid []int
		for o := range gset {
			grid = append(grid, o)
		}
		sort.Ints(grid)
		rep.Set("large_stream", map[string]interface{}{"stream": "req,big8k,not", "bytes": n, "grid_points": len(grid),
			"grid": "offsets within 2 of {0, end, envelope boundaries, every multiple of 512, every multiple of 512 + len(first envelope)} and every 61st offset"})
		enumWrite(p, bigS, 2, grid)
		enumReadSplits(p, bigS, 2)
		enumReadGrid(p, bigS, 2, grid)
		enumReadChunks(p, bigS, []int{1, 7, 511, 512, 513, 4096})
		enumReadCuts(p, bigS, false)
		runTLS(p)
	} else {
		rep.Set("tls", "not run in the quick tier (thorough only)")
	}
	p.wait()
	if p.expired.Load() {
		rep.NotExhaustive("wall-clock budget exhausted before all plans were evaluated")
	}
	var terrs []string
	tlsToolErrs.Range(func(k, _ interface{}) bool { terrs = append(terrs, k.(string)); return true })
	if len(terrs) > 0 {
		sort.Strings(terrs)
		rep.Set("tls_tool_errors", terrs)
		rep.NotExhaustive("TLS cases skipped because the in-memory handshake failed: " + terrs[0])
	}

	rep.Set("plans_write_1fault", nWrite1.Load())
	rep.Set("plans_write_2faults", nWrite2.Load())
	rep.Set("plans_read_split", nReadSplit.Load())
	rep.Set("plans_read_chunked", nReadChunk.Load())
	rep.Set("plans_read_cut", nReadCut.Load())
	rep.Set("plans_duplex", nDuplex.Load())
	rep.Set("plans_tls", nTLS.Load())
	rep.Set("sends_total", nSendsTotal.Load())
	rep.Set("sends_failed_under_transient_only_plans_not_a_violation", nSendFailedTransient.Load())
	rep.Set("temporary_timeouts_served", nTimeoutsServed.Load())
	rep.Set("receive_calls", nRecvCalls.Load())
	min := agg.minimal()
	var sigs []string
	for _, f := range min {
		rep.Fail(sigOf(f), f.msg, f.in)
		sigs = append(sigs, sigOf(f))
	}
	all := make([]string, 0, len(agg.m))
	for k := range agg.m {
		all = append(all, k)
	}
	sort.Strings(all)
	rep.Set("failing_classes_all", all)
	rep.Set("failing_classes_minimal", sigs)
	rep.Finish()
}
