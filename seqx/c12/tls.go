package main

// TLS variant of C12 (thorough tier). A real crypto/tls handshake is run
// between tls.Client and tls.Server over an in-memory duplex by two
// goroutines that are joined before anything else happens; afterwards both
// tls.Conns are re-pointed at passive scripted connections and everything is
// driven by the calling goroutine alone: the real sending transport writes
// its records to a pconn (write plan), the raw record stream that reached the
// far side is delivered to the receiving tls.Conn under the read plan, and a
// real receiving transport sits on top. Ciphertext bytes differ from run to
// run (fresh keys), record lengths and therefore plans and verdicts do not.

import (
	"bytes"
	"context"
	"crypto/ed25519"
	"crypto/rand"
	"crypto/tls"
	"crypto/x509"
	"crypto/x509/pkix"
	"errors"
	"fmt"
	"io"
	"math/big"
	"net"
	"strings"
	"sync"
	"time"

	lime "github.com/takenet/lime-go"

	"verif/seqx/pconn"
)

// memHalf is one end of the blocking in-memory duplex used for the handshake.
type memHalf struct {
	mu     *sync.Mutex
	cond   *sync.Cond
	in     bytes.Buffer
	peer   *memHalf
	closed bool
}

func newDuplex() (*memHalf, *memHalf) {
	mu := &sync.Mutex{}
	a := &memHalf{mu: mu, cond: sync.NewCond(mu)}
	b := &memHalf{mu: mu, cond: sync.NewCond(mu)}
	a.peer, b.peer = b, a
	return a, b
}

func (h *memHalf) Read(b []byte) (int, error) {
	h.mu.Lock()
	defer h.mu.Unlock()
	for h.in.Len() == 0 {
		if h.closed {
			return 0, io.EOF
		}
		h.cond.Wait()
	}
	return h.in.Read(b)
}

func (h *memHalf) Write(b []byte) (int, error) {
	h.mu.Lock()
	defer h.mu.Unlock()
	if h.closed {
		return 0, net.ErrClosed
	}
	h.peer.in.Write(b)
	h.peer.cond.Broadcast()
	return len(b), nil
}

func (h *memHalf) Close() error {
	h.mu.Lock()
	h.closed, h.peer.closed = true, true
	h.cond.Broadcast()
	h.peer.cond.Broadcast()
	h.mu.Unlock()
	return nil
}

type memAddr struct{}

func (memAddr) Network() string                     { return "mem" }
func (memAddr) String() string                      { return "mem" }
func (h *memHalf) LocalAddr() net.Addr              { return memAddr{} }
func (h *memHalf) RemoteAddr() net.Addr             { return memAddr{} }
func (h *memHalf) SetDeadline(time.Time) error      { return nil }
func (h *memHalf) SetReadDeadline(time.Time) error  { return nil }
func (h *memHalf) SetWriteDeadline(time.Time) error { return nil }

// swConn is the net.Conn under a tls.Conn; its delegate is switched from the
// handshake duplex to a passive scripted connection once the handshake is
// over (only the driving goroutine exists at that point).
type swConn struct{ d net.Conn }

func (s *swConn) Read(b []byte) (int, error)         { return s.d.Read(b) }
func (s *swConn) Write(b []byte) (int, error)        { return s.d.Write(b) }
func (s *swConn) Close() error                       { return s.d.Close() }
func (s *swConn) LocalAddr() net.Addr                { return s.d.LocalAddr() }
func (s *swConn) RemoteAddr() net.Addr               { return s.d.RemoteAddr() }
func (s *swConn) SetDeadline(t time.Time) error      { return s.d.SetDeadline(t) }
func (s *swConn) SetReadDeadline(t time.Time) error  { return s.d.SetReadDeadline(t) }
func (s *swConn) SetWriteDeadline(t time.Time) error { return s.d.SetWriteDeadline(t) }

var (
	tlsOnce   sync.Once
	tlsCert   tls.Certificate
	tlsErr    error
	fixedTime = time.Date(2024, 1, 2, 3, 4, 5, 0, time.UTC)
)

func tlsSetup() {
	seed := bytes.Repeat([]byte{0x42}, ed25519.SeedSize)
	priv := ed25519.NewKeyFromSeed(seed)
	tmpl := &x509.Certificate{
		SerialNumber: big.NewInt(12),
		Subject:      pkix.Name{CommonName: "c12"},
		NotBefore:    fixedTime.Add(-time.Hour),
		NotAfter:     fixedTime.Add(time.Hour),
		KeyUsage:     x509.KeyUsageDigitalSignature,
		ExtKeyUsage:  []x509.ExtKeyUsage{x509.ExtKeyUsageServerAuth},
		DNSNames:     []string{"c12"},
	}
	der, err := x509.CreateCertificate(rand.Reader, tmpl, tmpl, priv.Public(), priv)
	if err != nil {
		tlsErr = err
		return
	}
	tlsCert = tls.Certificate{Certificate: [][]byte{der}, PrivateKey: priv}
}

// handshake returns an established client/server pair and the switchable
// connections under them. Both handshake goroutines have ended on return.
func handshake(version uint16) (cli, srv *tls.Conn, cliSw, srvSw *swConn, err error) {
	tlsOnce.Do(tlsSetup)
	if tlsErr != nil {
		return nil, nil, nil, nil, tlsErr
	}
	a, b := newDuplex()
	cliSw, srvSw = &swConn{d: a}, &swConn{d: b}
	now := func() time.Time { return fixedTime }
	cli = tls.Client(cliSw, &tls.Config{InsecureSkipVerify: true, ServerName: "c12", MinVersion: version, MaxVersion: version, Time: now})
	srv = tls.Server(srvSw, &tls.Config{Certificates: []tls.Certificate{tlsCert}, MinVersion: version, MaxVersion: version, Time: now, SessionTicketsDisabled: true})
	var wg sync.WaitGroup
	var e1, e2 error
	wg.Add(2)
	go func() {
		defer wg.Done()
		if e1 = cli.Handshake(); e1 != nil {
			a.Close()
		}
	}()
	go func() {
		defer wg.Done()
		if e2 = srv.Handshake(); e2 != nil {
			b.Close()
		}
	}()
	wg.Wait()
	if e1 != nil || e2 != nil {
		return nil, nil, nil, nil, fmt.Errorf("handshake: client %v, server %v", e1, e2)
	}
	return cli, srv, cliSw, srvSw, nil
}

func tlsVersionName(v uint16) string {
	if v == tls.VersionTLS12 {
		return "tls1.2"
	}
	return "tls1.3"
}

var tlsToolErrs sync.Map

// evalTLSv runs one TLS case. The read plan applies to the raw record stream.
func evalTLSv(version uint16, names []string, rp, wp pconn.Plan, closeAfter bool) (res *failure, toolErr error) {
	cli, srv, cliSw, srvSw, err := handshake(version)
	if err != nil {
		return nil, err
	}
	// bytes either side still has pending after the handshake (TLS 1.3
	// post-handshake messages) stay in front of the scripted streams
	pendSrv := append([]byte(nil), srvSw.d.(*memHalf).in.Bytes()...)
	pendCli := append([]byte(nil), cliSw.d.(*memHalf).in.Bytes()...)
	_ = pendCli

	stream := items(names)
	wc := pconn.New(nil, nil, wp)
	cliSw.d = wc
	ctx, cancel := context.WithCancel(bg)
	defer cancel()
	wc.OnCancel = cancel
	tx := lime.NewTCPTransportFromConn(cli, nil, false)
	var S []*pconn.Item
	var cum []int
	okOnFault := -1
	spunAt := -1
	for i, it := range stream {
		w0 := wc.Writes
		err := pconn.Send(ctx, tx, it.Env)
		if errors.Is(err, pconn.ErrSpin) && spunAt < 0 {
			spunAt = i
		}
		if err == nil {
			S = append(S, it)
			cum = append(cum, len(pendSrv)+len(wc.Out))
			if h := wc.HardWriteAt; h >= w0 && h < wc.Writes {
				okOnFault = i
			}
		}
	}
	if closeAfter {
		tx.Close() // close_notify, then closes the scripted connection
	}
	raw := append(pendSrv, wc.Out...)
	o := rp.Outcome(len(raw))
	side := tlsVersionName(version)
	class := append(readClass(o), writeClass(wp)...)
	if closeAfter {
		class = append(class, "close-notify")
	}
	in := Input{Mode: "tls", Stream: names, RPlan: rp.String(), WPlan: wp.String(), Close: closeAfter, TLS: side}
	mk := func(clause, msg string) *failure {
		return &failure{side: side, clause: clause, class: class, msg: msg, in: in,
			cost: [3]int{len(rp) + len(wp), len(raw), sumN(rp) + sumN(wp)}}
	}
	if spunAt >= 0 {
		return mk("send-never-returns", fmt.Sprintf("Send #%d did not return on a connection that never blocks: it keeps retrying a write that TLS has given up for good", spunAt)), nil
	}
	if okOnFault >= 0 {
		return mk("send-ok-on-fault", fmt.Sprintf("Send #%d returned nil although a hard error / cancelled context was served", okOnFault)), nil
	}
	rc := pconn.New(raw, rp, nil)
	srvSw.d = rc
	var got []string
	var lastErr error
	anomaly := ""
	func() {
		defer func() {
			if p := recover(); p != nil {
				anomaly = fmt.Sprintf("panic: %v", p)
			}
		}()
		rx := lime.NewTCPTransportFromConn(srv, nil, true)
		for i := 0; i < len(stream)+2; i++ {
			env, err := pconn.Receive(bg, rx)
			if err != nil {
				lastErr = err
				return
			}
			if env == nil {
				anomaly = "nil-env"
				return
			}
			c, _ := pconn.Canon(env)
			got = append(got, c)
		}
	}()
	// crypto/tls (trusted) discards raw bytes that its connection returns
	// together with a permanent error, so records handed out that way are not
	// demanded; bytes that come with io.EOF or a temporary timeout are kept
	// by crypto/tls and are demanded.
	demanded := o.Delivered
	if o.DataHard {
		demanded -= o.WithEnd
	}
	mustHave := 0
	for _, c := range cum {
		if c <= demanded {
			mustHave++
		}
	}
	desc := fmt.Sprintf(" [%s, stream %v, sender write plan %q, sender closed=%v; %d raw bytes (record ends at %v) delivered under read plan %q: %d handed out; Receive returned %v then %v]",
		side, names, wp.String(), closeAfter, len(raw), cum, rp.String(), o.Delivered, got, lastErr)
	if anomaly != "" {
		return mk(strings.SplitN(anomaly, ":", 2)[0], anomaly+desc), nil
	}
	if clause, detail := judge(S, got, mustHave); clause != "" {
		return mk(clause, detail+desc), nil
	}
	return nil, nil
}

func parseVersion(s string) uint16 {
	if s == "tls1.2" {
		return tls.VersionTLS12
	}
	return tls.VersionTLS13
}

// evalTLS is the replay entry point (the version travels in Input.TLS).
func evalTLS(in Input, rp, wp pconn.Plan) *failure {
	f, err := evalTLSv(parseVersion(in.TLS), in.Stream, rp, wp, in.Close)
	if err != nil {
		fmt.Println("TOOL-ERROR:", err)
		return nil
	}
	return f
}

func runTLS(p *pool) {
	if _, _, _, _, err := handshake(tls.VersionTLS13); err != nil {
		rep.Set("tls", "not covered: in-memory handshake failed: "+err.Error())
		return
	}
	one := func(w *worker, v uint16, names []string, rp, wp pconn.Plan, cl bool) {
		f, err := evalTLSv(v, names, rp, wp, cl)
		if err != nil {
			tlsToolErrs.Store(err.Error(), true)
			return
		}
		agg.add(f)
		w.eval(fmt.Sprintf("T%s/%v", tlsVersionName(v), cl), names, rp, wp, len(rp)+len(wp) > 0 || cl)
		nTLS.Add(1)
	}
	info := map[string]interface{}{}
	for _, v := range []uint16{tls.VersionTLS12, tls.VersionTLS13} {
		for _, names := range [][]string{{"req"}, {"req", "not"}} {
			for _, cl := range []bool{false, true} {
				v, names, cl := v, names, cl
				// learn the raw stream length from one clean run
				cli, _, cliSw, srvSw, err := handshake(v)
				if err != nil {
					continue
				}
				pend := srvSw.d.(*memHalf).in.Len()
				wc := pconn.New(nil, nil, nil)
				cliSw.d = wc
				tx := lime.NewTCPTransportFromConn(cli, nil, false)
				var recLens []int
				for _, it := range items(names) {
					pconn.Send(bg, tx, it.Env)
				}
				recLens = append(recLens, wc.WriteLens...)
				if cl {
					tx.Close()
				}
				n := pend + len(wc.Out)
				info[fmt.Sprintf("%s %s close=%v", tlsVersionName(v), strings.Join(names, ","), cl)] =
					map[string]interface{}{"raw_bytes": n, "pending_after_handshake": pend, "record_writes": append([]int(nil), wc.WriteLens...)}
				// read side: every split into <=3 reads; plain, stalls before every read, every read with a timeout
				for k := 0; k <= 2; k++ {
					k := k
					firsts := []int{0}
					if k > 0 {
						firsts = firsts[:0]
						for f := 1; f <= n-k; f++ {
							firsts = append(firsts, f)
						}
					}
					for _, first := range firsts {
						first := first
						p.submit(func(w *worker) {
							pconn.ForEachCuts(n, k, first, func(cuts []int) {
								base := pconn.SegmentsPlan(nil, n, cuts)
								one(w, v, names, base, nil, cl)
								var st, dt pconn.Plan
								for _, a := range base {
									st = append(st, pconn.Act{K: 't'}, a)
									dt = append(dt, pconn.Act{K: 'T', N: a.N})
								}
								st = append(st, pconn.Act{K: 't'})
								one(w, v, names, st, nil, cl)
								one(w, v, names, dt, nil, cl)
							})
						})
					}
				}
				// cuts at every raw offset, byte-by-byte delivery
				p.submit(func(w *worker) {
					for c := 0; c <= n; c++ {
						if c == 0 {
							one(w, v, names, pconn.Plan{{K: 'e'}}, nil, cl)
							one(w, v, names, pconn.Plan{{K: 'x'}}, nil, cl)
							continue
						}
						one(w, v, names, pconn.Plan{{K: 'd', N: c}, {K: 'e'}}, nil, cl)
						one(w, v, names, pconn.Plan{{K: 'd', N: c}, {K: 'x'}}, nil, cl)
						one(w, v, names, pconn.Plan{{K: 'E', N: c}}, nil, cl)
						one(w, v, names, pconn.Plan{{K: 'X', N: c}}, nil, cl)
					}
					var ones pconn.Plan
					for i := 0; i < n; i++ {
						ones = append(ones, pconn.Act{K: 'd', N: 1})
					}
					one(w, v, names, ones, nil, cl)
				})
				// write side: one fault at every record write, every length
				p.submit(func(w *worker) {
					for j, l := range recLens {
						for _, kind := range faultKinds {
							for k := 0; k < l; k++ {
								var wp pconn.Plan
								for i := 0; i < j; i++ {
									wp = append(wp, pconn.Act{K: 'a'})
								}
								wp = append(wp, pconn.Act{K: kind, N: k})
								one(w, v, names, nil, wp, cl)
							}
						}
					}
				})
			}
		}
	}
	rep.Set("tls", map[string]interface{}{
		"covered": "TLS 1.2 and 1.3, real crypto/tls on both ends after an in-memory handshake; raw record stream split into <=3 reads at every byte boundary (plain / stalls / data+timeout), cut at every raw offset (EOF or hard error, separate or with data), 1-byte reads; one write fault at every length of every record write; with and without the sender closing (close_notify) after the last envelope",
		"streams": info,
	})
}
