// Package sx is the shared reporting layer of the seqx (sequential
// bounded-exhaustive) checks: violations with signatures, known findings,
// replay files and evidence in the common schema.
package sx

import (
	"encoding/json"
	"flag"
	"fmt"
	"hash/fnv"
	"io"
	"os"
	"path/filepath"
	"sort"
	"strings"
	"sync"
	"time"
)

// Report accumulates what a check covered and found. Safe for concurrent use.
type Report struct {
	Property string
	Level    string // exploration | fault_enumeration
	Rule     string
	Assume   []string

	mu         sync.Mutex
	evals      int64
	nontrivial map[uint64]struct{}
	samples    []interface{}
	found      map[string]Finding
	extra      map[string]interface{}
	exhaustive bool
	t0         time.Time

	Tier      string
	Evidence  string
	Known     string
	ReplayDir string
	Replay    string
	Workers   int
	Budget    time.Duration
}

// Finding is one violation class: Sig is its stable identity (the minimal
// input class, never a wildcard), Input what reproduces it.
type Finding struct {
	Sig   string      `json:"sig"`
	Msg   string      `json:"msg"`
	Input interface{} `json:"input"`
}

// New parses the common flags (--tier, --evidence, --known, --replays,
// --replay, --workers, --budget) and returns a report.
func New(property, level, rule string, assume []string) *Report {
	r := &Report{Property: property, Level: level, Rule: rule, Assume: assume,
		nontrivial: map[uint64]struct{}{}, found: map[string]Finding{}, extra: map[string]interface{}{}, exhaustive: true, t0: time.Now()}
	flag.StringVar(&r.Tier, "tier", "quick", "quick|thorough")
	flag.StringVar(&r.Evidence, "evidence", "", "evidence file")
	flag.StringVar(&r.Known, "known", "/verif/KNOWN_FINDINGS.txt", "known findings file")
	flag.StringVar(&r.ReplayDir, "replays", "/verif/replays", "replay directory")
	flag.StringVar(&r.Replay, "replay", "", "replay file to re-run")
	flag.IntVar(&r.Workers, "workers", 16, "parallel workers")
	b := flag.Int("budget", 0, "wall-clock budget in seconds (0: 200 quick / 1500 thorough)")
	flag.Parse()
	if *b == 0 {
		*b = 200
		if r.Tier == "thorough" {
			*b = 1500
		}
	}
	r.Budget = time.Duration(*b) * time.Second
	return r
}

// Thorough reports whether the thorough tier was requested.
func (r *Report) Thorough() bool { return r.Tier == "thorough" }

// Deadline is the internal wall-clock deadline of this run.
func (r *Report) Deadline() time.Time { return r.t0.Add(r.Budget) }

// Expired reports whether the budget is used up; callers that stop early
// because of it must call NotExhaustive.
func (r *Report) Expired() bool { return time.Now().After(r.Deadline()) }

// Eval counts one evaluated case; key identifies the case canonically and
// nontrivial says whether it counts as non-trivial under the stated rule.
func (r *Report) Eval(key string, nontrivial bool) {
	r.mu.Lock()
	r.evals++
	if nontrivial {
		h := fnv.New64a()
		io.WriteString(h, key)
		r.nontrivial[h.Sum64()] = struct{}{}
	}
	r.mu.Unlock()
}

// Sample keeps up to 8 example cases for the evidence file.
func (r *Report) Sample(v interface{}) {
	r.mu.Lock()
	if len(r.samples) < 8 {
		r.samples = append(r.samples, v)
	}
	r.mu.Unlock()
}

// Fail records a violation (first input per signature wins; shortest kept).
func (r *Report) Fail(sig, msg string, input interface{}) {
	r.mu.Lock()
	if _, ok := r.found[sig]; !ok {
		r.found[sig] = Finding{Sig: sig, Msg: msg, Input: input}
	}
	r.mu.Unlock()
}

// NotExhaustive marks the run as capped, with the reason.
func (r *Report) NotExhaustive(reason string) {
	r.mu.Lock()
	r.exhaustive = false
	r.extra["cap"] = reason
	r.mu.Unlock()
}

// Set adds an extra coverage key.
func (r *Report) Set(k string, v interface{}) {
	r.mu.Lock()
	r.extra[k] = v
	r.mu.Unlock()
}

// Evals returns the number of evaluations so far.
func (r *Report) Evals() int64 { r.mu.Lock(); defer r.mu.Unlock(); return r.evals }

func loadKnown(path, prop string) map[string]string {
	m := map[string]string{}
	b, err := os.ReadFile(path)
	if err != nil {
		return m
	}
	for _, l := range strings.Split(string(b), "\n") {
		l = strings.TrimSpace(l)
		if !strings.HasPrefix(l, "known:") {
			continue
		}
		f := strings.Fields(l)
		if len(f) < 4 || f[1] != "property="+prop || !strings.HasPrefix(f[2], "sig=") {
			continue
		}
		m[strings.TrimPrefix(f[2], "sig=")] = strings.Join(f[3:], " ")
	}
	return m
}

// ReplayInput loads the input of a replay file into v; ok=false when no
// --replay was given.
func (r *Report) ReplayInput(v interface{}) (sig string, ok bool) {
	if r.Replay == "" {
		return "", false
	}
	b, err := os.ReadFile(r.Replay)
	if err != nil {
		fmt.Fprintln(os.Stderr, "TOOL-ERROR:", err)
		os.Exit(2)
	}
	var f struct {
		Sig   string          `json:"sig"`
		Input json.RawMessage `json:"input"`
	}
	if err := json.Unmarshal(b, &f); err != nil {
		fmt.Fprintln(os.Stderr, "TOOL-ERROR:", err)
		os.Exit(2)
	}
	if err := json.Unmarshal(f.Input, v); err != nil {
		fmt.Fprintln(os.Stderr, "TOOL-ERROR:", err)
		os.Exit(2)
	}
	return f.Sig, true
}

// Finish prints KNOWN-FINDING / VIOLATION lines, writes replay files and the
// evidence file and exits with the contract's status.
func (r *Report) Finish() {
	kn := loadKnown(r.Known, r.Property)
	var sigs []string
	for s := range r.found {
		sigs = append(sigs, s)
	}
	sort.Strings(sigs)
	nviol := 0
	for _, s := range sigs {
		f := r.found[s]
		if d, ok := kn[s]; ok && r.Replay == "" {
			fmt.Printf("KNOWN-FINDING: property=%s %s [sig=%s]\n", r.Property, d, s)
			continue
		}
		nviol++
		path := r.Replay
		if path == "" {
			d := filepath.Join(r.ReplayDir, r.Property)
			os.MkdirAll(d, 0o755)
			h := fnv.New32a()
			io.WriteString(h, s)
			path = filepath.Join(d, fmt.Sprintf("seqx-%08x.json", h.Sum32()))
			b, _ := json.MarshalIndent(map[string]interface{}{"property": r.Property, "sig": f.Sig, "msg": f.Msg, "input": f.Input}, "", " ")
			os.WriteFile(path, b, 0o644)
		}
		fmt.Printf("VIOLATION property=%s replay=%s\n  sig=%s: %s\n", r.Property, path, s, f.Msg)
	}
	if r.Replay != "" {
		if nviol > 0 {
			os.Exit(1)
		}
		fmt.Println("replay: no violation")
		os.Exit(0)
	}
	seed := 0
	fmt.Sscan(os.Getenv("VERIF_SEED"), &seed)
	cov := map[string]interface{}{
		"evaluations":         r.evals,
		"distinct_nontrivial": len(r.nontrivial),
		"rule":                r.Rule,
		"samples":             r.samples,
		"exhaustive":          r.exhaustive,
	}
	for k, v := range r.extra {
		cov[k] = v
	}
	ev := map[string]interface{}{"property_id": r.Property, "tier": r.Tier, "seed": seed, "level": r.Level,
		"coverage": cov, "assumptions": r.Assume, "wall_s": time.Since(r.t0).Seconds(), "violations": nviol}
	if r.Evidence != "" {
		b, _ := json.MarshalIndent(ev, "", " ")
		os.MkdirAll(filepath.Dir(r.Evidence), 0o755)
		if err := os.WriteFile(r.Evidence, b, 0o644); err != nil {
			fmt.Fprintln(os.Stderr, "TOOL-ERROR:", err)
			os.Exit(2)
		}
	}
	fmt.Printf("property %s tier %s: evaluations=%d distinct_nontrivial=%d exhaustive=%v violations=%d wall=%.1fs\n",
		r.Property, r.Tier, r.evals, len(r.nontrivial), r.exhaustive, nviol, time.Since(r.t0).Seconds())
	if nviol > 0 {
		os.Exit(1)
	}
	os.Exit(0)
}
