package codec

import (
	"fmt"
	"net/url"
	"reflect"
	"time"

	lime "github.com/takenet/lime-go"
	"github.com/takenet/lime-go/chat"
)

func init() { chat.RegisterChatDocuments() }

// Esc is the "difficult" valid-UTF-8 string of the grammar: JSON escapes,
// HTML-escaped runes, U+2028, a 2-byte and a 4-byte rune.
const Esc = "a\"\\\n\t<&> é 😀"

// ---------------------------------------------------------------- base ---

// Nodes is the node dimension of the base grammar; index 0 is "absent".
var Nodes = []lime.Node{
	{},
	{Identity: lime.Identity{Name: "n"}},
	{Identity: lime.Identity{Name: "n", Domain: "d"}},
	{Identity: lime.Identity{Name: "n", Domain: "d"}, Instance: "i"},
	{Identity: lime.Identity{Name: "", Domain: "d"}, Instance: "i"},
	{Identity: lime.Identity{Name: "é😀", Domain: "dö.com"}, Instance: "ï \"x"},
}

var IDs = []string{"", "1", Esc}

var Metas = []map[string]string{nil, {"k": "v"}, {"a\"\\\n": "é 😀", "": ""}}

// Base is one value of the base grammar; Ix are its indices into IDs, Nodes
// (from, pp, to) and Metas, which is what replay files store.
type Base struct {
	Env lime.Envelope
	Ix  [5]int
}

// MkBase builds the base with the given dimension indices.
func MkBase(id, from, pp, to, meta int) Base {
	return Base{lime.Envelope{ID: IDs[id], From: Nodes[from], PP: Nodes[pp], To: Nodes[to], Metadata: Metas[meta]}, [5]int{id, from, pp, to, meta}}
}

// BasesFull is the full product id x from x pp x to x metadata (3*6*6*6*3 = 1944).
func BasesFull() []Base {
	var out []Base
	for id := range IDs {
		for m := range Metas {
			for f := range Nodes {
				for p := range Nodes {
					for t := range Nodes {
						out = append(out, MkBase(id, f, p, t, m))
					}
				}
			}
		}
	}
	return out
}

// BasesPairwise is a deterministic greedy covering array: every pair of
// values of every two base dimensions occurs in some row (verified; panics
// otherwise). Row 0 is the all-simplest base.
func BasesPairwise() []Base {
	dims := []int{len(IDs), len(Nodes), len(Nodes), len(Nodes), len(Metas)}
	type pair struct{ d1, v1, d2, v2 int }
	unc := map[pair]bool{}
	for a := 0; a < 5; a++ {
		for b := a + 1; b < 5; b++ {
			for x := 0; x < dims[a]; x++ {
				for y := 0; y < dims[b]; y++ {
					unc[pair{a, x, b, y}] = true
				}
			}
		}
	}
	gain := func(r [5]int) int {
		g := 0
		for a := 0; a < 5; a++ {
			for b := a + 1; b < 5; b++ {
				if unc[pair{a, r[a], b, r[b]}] {
					g++
				}
			}
		}
		return g
	}
	var rows [][5]int
	for len(unc) > 0 {
		best, bg := [5]int{}, -1
		var r [5]int
		for r[0] = 0; r[0] < dims[0]; r[0]++ {
			for r[1] = 0; r[1] < dims[1]; r[1]++ {
				for r[2] = 0; r[2] < dims[2]; r[2]++ {
					for r[3] = 0; r[3] < dims[3]; r[3]++ {
						for r[4] = 0; r[4] < dims[4]; r[4]++ {
							if g := gain(r); g > bg {
								best, bg = r, g
							}
						}
					}
				}
			}
		}
		if bg <= 0 {
			panic("covering array construction failed")
		}
		for a := 0; a < 5; a++ {
			for b := a + 1; b < 5; b++ {
				delete(unc, pair{a, best[a], b, best[b]})
			}
		}
		rows = append(rows, best)
	}
	out := make([]Base, len(rows))
	for i, r := range rows {
		out[i] = MkBase(r[0], r[1], r[2], r[3], r[4])
	}
	return out
}

// ----------------------------------------------------------- documents ---

// Doc is a document together with the media type it travels under and its
// kind path (e.g. "container>collection>text").
type Doc struct {
	T    lime.MediaType
	D    lime.Document
	Path string
}

func mt(t, s, x string) lime.MediaType { return lime.MediaType{Type: t, Subtype: s, Suffix: x} }

func jd(m map[string]interface{}) *lime.JsonDocument { d := lime.JsonDocument(m); return &d }

// sampleValues gives the non-zero sample values used for one field type of the
// chat documents (pointer-typed optionals get both a zero and a non-zero
// pointee: omitempty must keep &false / &0).
func sampleValues(t reflect.Type) []reflect.Value {
	tr, fa := true, false
	i3, i0 := 3, 0
	t1 := time.Date(2021, 2, 3, 4, 5, 6, 0, time.UTC)
	t2 := time.Date(1999, 12, 31, 23, 59, 59, 123000000, time.FixedZone("", 3*3600))
	u, _ := url.Parse("http://h.com/p%20q.png?x=1#f")
	uri, _ := lime.ParseLimeURI("/p")
	var vals []interface{}
	switch t {
	case reflect.TypeOf(""):
		vals = []interface{}{"x", Esc}
	case reflect.TypeOf(&tr):
		vals = []interface{}{&tr, &fa}
	case reflect.TypeOf(&i3):
		vals = []interface{}{&i3, &i0}
	case reflect.TypeOf(float32(0)):
		vals = []interface{}{float32(-3.5), float32(0.1)}
	case reflect.TypeOf(map[string]string{}):
		vals = []interface{}{map[string]string{"k": "v", Esc: Esc}}
	case reflect.TypeOf(&t1):
		vals = []interface{}{&t1, &t2}
	case reflect.TypeOf(u):
		vals = []interface{}{u}
	case reflect.TypeOf(&lime.Identity{}):
		vals = []interface{}{&lime.Identity{Name: "n", Domain: "d"}, &lime.Identity{Name: "n"}}
	case reflect.TypeOf([]string{}):
		vals = []interface{}{[]string{"a"}, []string{"a", Esc}}
	case reflect.TypeOf(chat.PresenceStatus("")):
		vals = []interface{}{chat.PresenceStatusAvailable, chat.PresenceStatusInvisible}
	case reflect.TypeOf(chat.RoutingRule("")):
		vals = []interface{}{chat.RoutingRuleIdentity, chat.RoutingRuleRootDomain}
	case reflect.TypeOf([]lime.NotificationEvent{}):
		vals = []interface{}{[]lime.NotificationEvent{lime.NotificationEventAccepted}, []lime.NotificationEvent{lime.NotificationEventFailed, lime.NotificationEventConsumed}}
	case reflect.TypeOf(lime.Node{}):
		vals = []interface{}{Nodes[3], Nodes[1]}
	case reflect.TypeOf([]chat.DelegationMessage{}):
		vals = []interface{}{[]chat.DelegationMessage{{Type: lime.MediaTypeTextPlain()}, {Type: mt("application", "x", "json")}}}
	case reflect.TypeOf([]chat.DelegationNotification{}):
		vals = []interface{}{[]chat.DelegationNotification{{Event: lime.NotificationEventReceived}, {}}}
	case reflect.TypeOf([]chat.DelegationCommand{}):
		vals = []interface{}{[]chat.DelegationCommand{{Method: lime.CommandMethodGet, URI: uri, Status: lime.CommandStatusSuccess}, {}}}
	default:
		panic("no sample for field type " + t.String())
	}
	out := make([]reflect.Value, len(vals))
	for i, v := range vals {
		out[i] = reflect.ValueOf(v)
	}
	return out
}

// leafFields lists the index paths of all settable leaf fields of a struct
// type, flattening embedded structs.
func leafFields(t reflect.Type, prefix []int) [][]int {
	var out [][]int
	for i := 0; i < t.NumField(); i++ {
		f := t.Field(i)
		p := append(append([]int{}, prefix...), i)
		if f.Anonymous && f.Type.Kind() == reflect.Struct {
			out = append(out, leafFields(f.Type, p)...)
		} else if f.PkgPath == "" {
			out = append(out, p)
		}
	}
	return out
}

// structVariants enumerates, for a registered struct document type: the zero
// value, every value with exactly one field set (each sample of that field),
// and the value with every field set.
func structVariants(proto lime.Document) []lime.Document {
	t := reflect.TypeOf(proto).Elem()
	mk := func() reflect.Value { return reflect.New(t) }
	out := []lime.Document{mk().Interface().(lime.Document)}
	all := mk()
	for _, p := range leafFields(t, nil) {
		ft := t.FieldByIndex(p).Type
		for k, sv := range sampleValues(ft) {
			v := mk()
			v.Elem().FieldByIndex(p).Set(sv)
			out = append(out, v.Interface().(lime.Document))
			if k == 0 {
				all.Elem().FieldByIndex(p).Set(sv)
			}
		}
	}
	return append(out, all.Interface().(lime.Document))
}

// leafDocs is document(1): every non-nesting document kind.
func leafDocs() []Doc {
	var out []Doc
	add := func(path string, t lime.MediaType, d lime.Document) { out = append(out, Doc{t, d, path}) }
	tp := lime.MediaTypeTextPlain()
	for _, s := range []string{"x", "", Esc} {
		add("text", tp, lime.TextDocument(s))
	}
	pt := lime.TextDocument("p")
	add("text", tp, &pt)
	aj := lime.MediaTypeApplicationJson()
	jsons := []map[string]interface{}{
		{},
		{"s": "x", "n": 1.5, "i": -3, "big": 1e21, "b": true, "f": false, "z": nil},
		{"m": map[string]interface{}{"k": []interface{}{1.0, "a", nil, map[string]interface{}{"q": false}}}, "a": []interface{}{}, Esc: Esc},
	}
	for _, j := range jsons {
		add("json", aj, jd(j))
	}
	add("json?", mt("application", "x-unknown", "json"), jd(jsons[1])) // unknown +json type -> generic JSON
	add("json?", mt("image", "é.x", "json"), jd(jsons[0]))
	add("json?", mt("application", "vnd.Acme.OrderStatus", "json"), jd(jsons[0])) // case is part of the name
	add("text?", mt("Text", "X-Custom", ""), lime.TextDocument("u"))
	add("text?", mt("text", "x-unknown", ""), lime.TextDocument("u"))           // unknown text/* -> text
	add("text?", mt("application", "octet.stream", ""), lime.TextDocument(Esc)) // any other unregistered non-json type -> text
	add("ping", lime.MediaTypePing(), &lime.Ping{})
	for _, proto := range []lime.Document{&chat.Account{}, &chat.Contact{}, &chat.Presence{}, &chat.Receipt{}, &chat.Delegation{}} {
		name := reflect.TypeOf(proto).Elem().Name()
		for _, d := range structVariants(proto) {
			add(name, d.MediaType(), d)
		}
	}
	return out
}

// DocsAt returns document(d) \ document(d-1): the documents whose nesting depth
// is exactly d. Level d>1 = for every x in level d-1: Container(x); for every
// item type T occurring in level d-1 with members m0..mk: Collection(T, []),
// Collection(T,[mi]) and Collection(T,[mi, m(i+1 mod k+1)]) (Total = number of
// items, plus one Total=7 and one Total=0 variant per type: Total is independent of Items).
func DocsAt(d int) []Doc {
	if d <= 1 {
		return leafDocs()
	}
	prev := DocsAt(d - 1)
	var out []Doc
	for _, x := range prev {
		out = append(out, Doc{mtContainer, &lime.DocumentContainer{Type: x.T, Value: x.D}, "container>" + x.Path})
	}
	var order []lime.MediaType
	groups := map[lime.MediaType][]Doc{}
	for _, x := range prev {
		if _, ok := groups[x.T]; !ok {
			order = append(order, x.T)
		}
		groups[x.T] = append(groups[x.T], x)
	}
	for _, t := range order {
		g := groups[t]
		p := "collection>" + g[0].Path
		out = append(out, Doc{mtCollection, &lime.DocumentCollection{ItemType: t, Items: []lime.Document{}}, "collection>[]"})
		out = append(out, Doc{mtCollection, &lime.DocumentCollection{Total: 7, ItemType: t, Items: []lime.Document{g[0].D}}, p})
		// Total is an independent field (the size of the source collection): zero with items present is a value too
		out = append(out, Doc{mtCollection, &lime.DocumentCollection{Total: 0, ItemType: t, Items: []lime.Document{g[0].D}}, p + "(total=0)"})
		for _, x := range g {
			out = append(out, Doc{mtCollection, &lime.DocumentCollection{Total: 1, ItemType: t, Items: []lime.Document{x.D}}, "collection>" + x.Path})
		}
		for i, x := range g {
			y := g[(i+1)%len(g)]
			out = append(out, Doc{mtCollection, &lime.DocumentCollection{Total: 2, ItemType: t, Items: []lime.Document{x.D, y.D}}, "collection>" + x.Path + "+" + y.Path})
		}
	}
	return out
}

var (
	mtContainer  = (&lime.DocumentContainer{}).MediaType()
	mtCollection = (&lime.DocumentCollection{}).MediaType()
)

// Docs returns document(1) ∪ … ∪ document(depth), simplest first.
func Docs(depth int) []Doc {
	var out []Doc
	for d := 1; d <= depth; d++ {
		out = append(out, DocsAt(d)...)
	}
	return out
}

// ----------------------------------------------------------- envelopes ---

// Case is one envelope body of the grammar: Make builds the envelope (a fresh
// pointer) on a base; Class names its (kind, field-set, document-kind-path)
// class.
type Case struct {
	Kind  string
	Class string
	Make  func(b lime.Envelope) interface{}
}

var Methods = []lime.CommandMethod{lime.CommandMethodGet, lime.CommandMethodSet, lime.CommandMethodDelete, lime.CommandMethodSubscribe,
	lime.CommandMethodUnsubscribe, lime.CommandMethodObserve, lime.CommandMethodMerge}
var Events = []lime.NotificationEvent{lime.NotificationEventAccepted, lime.NotificationEventDispatched, lime.NotificationEventReceived,
	lime.NotificationEventConsumed, lime.NotificationEventFailed}
var States = []lime.SessionState{lime.SessionStateNew, lime.SessionStateNegotiating, lime.SessionStateAuthenticating, lime.SessionStateEstablished,
	lime.SessionStateFinishing, lime.SessionStateFinished, lime.SessionStateFailed}
var URIs = []string{"/p", "/p?q=1", "lime://n@d/p", "/a%20b", "/p#frag", "/p/q?a=1&b=%20#f", "lime://n@d/p?x=1#f"}

// Reasons: index 0 is "absent".
var Reasons = []*lime.Reason{nil, {Code: 42, Description: Esc}, {Description: "d"}, {Code: 1}, {}}

// Auths: index 0 is "none".
var Auths = []lime.Authentication{nil, &lime.GuestAuthentication{}, &lime.PlainAuthentication{Password: "cGFzcw=="},
	&lime.KeyAuthentication{Key: "a2V5"}, &lime.TransportAuthentication{}, &lime.ExternalAuthentication{Token: "dA==", Issuer: Esc}}

func mustURI(s string) *lime.URI {
	u, err := lime.ParseLimeURI(s)
	if err != nil {
		panic(err)
	}
	return u
}

func command(b lime.Envelope, m lime.CommandMethod, d *Doc) lime.Command {
	c := lime.Command{Envelope: b, Method: m}
	if d != nil {
		t := d.T
		c.Type, c.Resource = &t, d.D
	}
	return c
}

// Cases enumerates every envelope body of the grammar over the given
// documents, simplest first within each kind. The first case of each kind is
// the one combined with the FULL base product.
func Cases(docs []Doc) []Case {
	var out []Case
	// Message(base, doc)
	for i := range docs {
		d := docs[i]
		out = append(out, Case{"Message", "doc=" + d.Path, func(b lime.Envelope) interface{} {
			return &lime.Message{Envelope: b, Type: d.T, Content: d.D}
		}})
	}
	// Notification(base, event, reason)
	for _, ev := range Events {
		for ri, re := range Reasons {
			ev, re := ev, re
			out = append(out, Case{"Notification", fmt.Sprintf("event=%s,reason=%d", ev, ri), func(b lime.Envelope) interface{} {
				return &lime.Notification{Envelope: b, Event: ev, Reason: re}
			}})
		}
	}
	// RequestCommand(base, method, uri, resource absent | docs[0]) and (get, /p, every doc)
	for _, m := range Methods {
		for _, u := range URIs {
			for _, withRes := range []bool{false, true} {
				m, u := m, u
				var d *Doc
				cl := fmt.Sprintf("method=%s,uri=%s", m, u)
				if withRes {
					d = &docs[0]
					cl += ",doc=" + d.Path
				}
				out = append(out, Case{"RequestCommand", cl, func(b lime.Envelope) interface{} {
					return &lime.RequestCommand{Command: command(b, m, d), URI: mustURI(u)}
				}})
			}
		}
	}
	for i := range docs {
		d := &docs[i]
		out = append(out, Case{"RequestCommand", "method=set,uri=/p,doc=" + d.Path, func(b lime.Envelope) interface{} {
			return &lime.RequestCommand{Command: command(b, lime.CommandMethodSet, d), URI: mustURI("/p")}
		}})
	}
	// ResponseCommand(base, method, status, reason x resource) and every doc as resource
	for _, m := range Methods {
		for _, st := range []lime.CommandStatus{lime.CommandStatusSuccess, lime.CommandStatusFailure} {
			for ri, re := range Reasons[:3] {
				for _, withRes := range []bool{false, true} {
					m, st, re := m, st, re
					var d *Doc
					cl := fmt.Sprintf("method=%s,status=%s,reason=%d", m, st, ri)
					if withRes {
						d = &docs[0]
						cl += ",doc=" + d.Path
					}
					out = append(out, Case{"ResponseCommand", cl, func(b lime.Envelope) interface{} {
						return &lime.ResponseCommand{Command: command(b, m, d), Status: st, Reason: re}
					}})
				}
			}
		}
	}
	for i := range docs {
		d := &docs[i]
		out = append(out, Case{"ResponseCommand", "method=get,status=success,doc=" + d.Path, func(b lime.Envelope) interface{} {
			return &lime.ResponseCommand{Command: command(b, lime.CommandMethodGet, d), Status: lime.CommandStatusSuccess}
		}})
		out = append(out, Case{"ResponseCommand", "method=get,status=failure,reason=1,doc=" + d.Path, func(b lime.Envelope) interface{} {
			return &lime.ResponseCommand{Command: command(b, lime.CommandMethodGet, d), Status: lime.CommandStatusFailure, Reason: Reasons[1]}
		}})
	}
	// Session(base, state, subset of 7 optional fields, authentication). With
	// authentication the scheme is the authentication's scheme (the library's
	// contract: "must be present if authentication is defined"), so the
	// "scheme" bit only varies when authentication is none.
	for _, st := range States {
		for ai, au := range Auths {
			for bits := 0; bits < 128; bits++ {
				if au != nil && bits&32 == 0 {
					continue
				}
				st, au, bits := st, au, bits
				out = append(out, Case{"Session", fmt.Sprintf("state=%s,auth=%d,fields=%07b", st, ai, bits), func(b lime.Envelope) interface{} {
					s := &lime.Session{Envelope: b, State: st}
					if bits&1 != 0 {
						s.EncryptionOptions = []lime.SessionEncryption{lime.SessionEncryptionNone, lime.SessionEncryptionTLS}
					}
					if bits&2 != 0 {
						s.Encryption = lime.SessionEncryptionTLS
					}
					if bits&4 != 0 {
						s.CompressionOptions = []lime.SessionCompression{lime.SessionCompressionNone, lime.SessionCompressionGzip}
					}
					if bits&8 != 0 {
						s.Compression = lime.SessionCompressionGzip
					}
					if bits&16 != 0 {
						s.SchemeOptions = []lime.AuthenticationScheme{lime.AuthenticationSchemeGuest, lime.AuthenticationSchemePlain,
							lime.AuthenticationSchemeKey, lime.AuthenticationSchemeTransport, lime.AuthenticationSchemeExternal}
					}
					if bits&32 != 0 {
						s.Scheme = lime.AuthenticationSchemePlain
					}
					if bits&64 != 0 {
						s.Reason = Reasons[1]
					}
					if au != nil {
						s.SetAuthentication(au)
					}
					return s
				}})
			}
		}
	}
	return out
}
