package codec

import (
	"bytes"
	"encoding/json"
	"fmt"
	"strconv"
	"strings"
)

// JNode is an order-preserving JSON tree; mutations operate on it and Render
// turns it back into bytes (so malformed-but-parseable inputs such as
// duplicate keys can be expressed).
type JNode struct {
	Kind byte   // 'o' object, 'a' array, 'l' literal (string/number/bool/null, kept as raw text)
	Lit  string // raw JSON text of a literal
	Keys []string
	Kids []*JNode
}

// ParseJSON parses one JSON value.
func ParseJSON(b []byte) (*JNode, error) {
	dec := json.NewDecoder(bytes.NewReader(b))
	dec.UseNumber()
	return parseNode(dec)
}

func parseNode(dec *json.Decoder) (*JNode, error) {
	tok, err := dec.Token()
	if err != nil {
		return nil, err
	}
	switch t := tok.(type) {
	case json.Delim:
		if t == '{' {
			n := &JNode{Kind: 'o'}
			for dec.More() {
				k, err := dec.Token()
				if err != nil {
					return nil, err
				}
				v, err := parseNode(dec)
				if err != nil {
					return nil, err
				}
				n.Keys = append(n.Keys, k.(string))
				n.Kids = append(n.Kids, v)
			}
			_, err = dec.Token()
			return n, err
		}
		n := &JNode{Kind: 'a'}
		for dec.More() {
			v, err := parseNode(dec)
			if err != nil {
				return nil, err
			}
			n.Kids = append(n.Kids, v)
		}
		_, err = dec.Token()
		return n, err
	case string:
		b, _ := json.Marshal(t)
		return &JNode{Kind: 'l', Lit: string(b)}, nil
	case json.Number:
		return &JNode{Kind: 'l', Lit: t.String()}, nil
	case bool:
		return &JNode{Kind: 'l', Lit: strconv.FormatBool(t)}, nil
	case nil:
		return &JNode{Kind: 'l', Lit: "null"}, nil
	}
	return nil, fmt.Errorf("unexpected token %v", tok)
}

func lit(s string) *JNode { return &JNode{Kind: 'l', Lit: s} }

// Render writes the compact JSON text of the tree.
func (n *JNode) Render() []byte {
	var sb bytes.Buffer
	n.render(&sb)
	return sb.Bytes()
}

func (n *JNode) render(sb *bytes.Buffer) {
	switch n.Kind {
	case 'l':
		sb.WriteString(n.Lit)
	case 'a':
		sb.WriteByte('[')
		for i, k := range n.Kids {
			if i > 0 {
				sb.WriteByte(',')
			}
			k.render(sb)
		}
		sb.WriteByte(']')
	case 'o':
		sb.WriteByte('{')
		for i, k := range n.Kids {
			if i > 0 {
				sb.WriteByte(',')
			}
			kb, _ := json.Marshal(n.Keys[i])
			sb.Write(kb)
			sb.WriteByte(':')
			k.render(sb)
		}
		sb.WriteByte('}')
	}
}

func (n *JNode) clone() *JNode {
	c := &JNode{Kind: n.Kind, Lit: n.Lit}
	if n.Keys != nil {
		c.Keys = append([]string{}, n.Keys...)
	}
	for _, k := range n.Kids {
		c.Kids = append(c.Kids, k.clone())
	}
	return c
}

// Count returns the number of nodes of the tree.
func (n *JNode) Count() int {
	c := 1
	for _, k := range n.Kids {
		c += k.Count()
	}
	return c
}

// Replacements is the fixed list of values a node is replaced by: null, each
// JSON type (so every "wrong type" occurs at every node), and strings that are
// meaningful to the lime grammar (media types of every registered document
// kind, degenerate separators, enum members), so that type confusion between
// a declared media type and the value next to it is enumerated too.
var Replacements = []string{
	`null`, `true`, `false`, `0`, `1`, `-1`, `1.5`, `1e400`,
	`""`, `"x"`, `"/"`, `"+"`, `"@"`, `"a/b"`, `"a/b+json"`,
	`"text/plain"`, `"application/json"`, `"application/vnd.lime.container+json"`, `"application/vnd.lime.collection+json"`,
	`"application/vnd.lime.ping+json"`, `"application/vnd.lime.account+json"`, `"application/vnd.lime.delegation+json"`,
	`"get"`, `"success"`, `"accepted"`, `"new"`, `"guest"`, `"plain"`,
	`{}`, `[]`, `[null]`, `[[]]`, `[{}]`, `{"":null}`, `{"type":"text/plain"}`, `{"type":"text/plain","value":"x"}`,
}

// ReplacementsSmall is the reduced list used for the second mutation of a pair.
var ReplacementsSmall = []string{`null`, `true`, `0`, `""`, `"x"`, `{}`, `[]`, `[null]`}

// KnownKeys are the field names the decoders know (envelope, container,
// collection, reason), each with a typical valid value; they are added to
// objects that lack them (kind confusion), next to one alien key.
var KnownKeys = [][2]string{
	{"alien", `1`},
	{"id", `"1"`}, {"from", `"a@b/c"`}, {"pp", `"a@b"`}, {"to", `"a"`}, {"metadata", `{"k":"v"}`},
	{"reason", `{"code":1,"description":"d"}`}, {"type", `"text/plain"`}, {"content", `"x"`},
	{"event", `"accepted"`}, {"method", `"get"`}, {"resource", `"x"`}, {"uri", `"/p"`}, {"status", `"success"`},
	{"state", `"new"`}, {"encryptionOptions", `["none"]`}, {"encryption", `"none"`}, {"compressionOptions", `["none"]`},
	{"compression", `"none"`}, {"schemeOptions", `["guest"]`}, {"scheme", `"guest"`}, {"authentication", `{}`},
	{"value", `"x"`}, {"itemType", `"text/plain"`}, {"items", `["x"]`}, {"total", `1`},
}

// Mutations calls emit with every single point mutation of the tree: at every
// node — delete it, replace it by each value of the replacement list; at
// every object — add each missing known/alien key (typical value and null),
// duplicate each key (with null, and with its own value), re-spell each key in
// upper case; at every object/array — swap every two children. With small=true
// the reduced lists are used (second mutation of a pair). desc is the
// mutation's path and operation, m a fresh tree the callee may keep.
func Mutations(root *JNode, small bool, emit func(desc string, m *JNode)) {
	repl, keys := Replacements, KnownKeys
	if small {
		repl, keys = ReplacementsSmall, KnownKeys[:1]
	}
	// address nodes by child-index paths; resolve them on each fresh clone
	var paths [][]int
	var walk func(n *JNode, p []int)
	walk = func(n *JNode, p []int) {
		paths = append(paths, append([]int{}, p...))
		for i, k := range n.Kids {
			walk(k, append(p, i))
		}
	}
	walk(root, nil)
	at := func(r *JNode, p []int) (parent *JNode, idx int, n *JNode) {
		n, idx = r, -1
		for _, i := range p {
			parent, idx, n = n, i, n.Kids[i]
		}
		return
	}
	name := func(p []int) string {
		s, n := "$", root
		for _, i := range p {
			if n.Kind == 'o' {
				s += "." + n.Keys[i]
			} else {
				s += "[" + strconv.Itoa(i) + "]"
			}
			n = n.Kids[i]
		}
		return s
	}
	for _, p := range paths {
		_, _, orig := at(root, p)
		nm := name(p)
		if len(p) > 0 { // delete
			m := root.clone()
			par, i, _ := at(m, p)
			par.Kids = append(par.Kids[:i], par.Kids[i+1:]...)
			if par.Kind == 'o' {
				par.Keys = append(par.Keys[:i], par.Keys[i+1:]...)
			}
			emit(nm+":delete", m)
		}
		for _, rp := range repl { // replace
			if orig.Kind == 'l' && orig.Lit == rp {
				continue
			}
			rn, _ := ParseJSON([]byte(rp))
			if rn == nil {
				rn = lit(rp)
			}
			m := root.clone()
			if par, i, _ := at(m, p); par == nil {
				m = rn
			} else {
				par.Kids[i] = rn
			}
			emit(nm+":="+rp, m)
		}
		if orig.Kind == 'o' {
			has := map[string]bool{}
			for _, k := range orig.Keys {
				has[k] = true
			}
			for _, kk := range keys { // add key
				if has[kk[0]] {
					continue
				}
				for _, val := range []string{kk[1], "null"} {
					m := root.clone()
					_, _, n := at(m, p)
					vn, _ := ParseJSON([]byte(val))
					n.Keys, n.Kids = append(n.Keys, kk[0]), append(n.Kids, vn)
					emit(nm+":add "+kk[0]+"="+val, m)
					if small {
						break
					}
				}
			}
			for i, k := range orig.Keys { // duplicate key, re-spelt key
				m := root.clone()
				_, _, n := at(m, p)
				n.Keys, n.Kids = append(n.Keys, k), append(n.Kids, lit("null"))
				emit(nm+":dup "+k+"=null", m)
				if small {
					continue
				}
				m = root.clone()
				_, _, n = at(m, p)
				n.Keys, n.Kids = append([]string{k}, n.Keys...), append([]*JNode{lit("null")}, n.Kids...)
				emit(nm+":dupfirst "+k+"=null", m)
				m = root.clone()
				_, _, n = at(m, p)
				n.Keys, n.Kids = append(n.Keys, k), append(n.Kids, n.Kids[i].clone())
				emit(nm+":dup "+k, m)
				if up := strings.ToUpper(k); up != k {
					m = root.clone()
					_, _, n = at(m, p)
					n.Keys[i] = up
					emit(nm+":upper "+k, m)
				}
			}
		}
		if orig.Kind != 'l' { // swap two children (sub-trees)
			for i := range orig.Kids {
				for j := i + 1; j < len(orig.Kids); j++ {
					m := root.clone()
					_, _, n := at(m, p)
					n.Kids[i], n.Kids[j] = n.Kids[j], n.Kids[i]
					emit(fmt.Sprintf("%s:swap %d,%d", nm, i, j), m)
				}
			}
		}
	}
	// swap with a non-sibling: each child of the root with each grandchild
	// (moves a sub-tree across nesting levels)
	if !small && root.Kind == 'o' {
		for i, c := range root.Kids {
			for j, g := range c.Kids {
				_ = g
				for k := range root.Kids {
					if k == i {
						continue
					}
					m := root.clone()
					m.Kids[k], m.Kids[i].Kids[j] = m.Kids[i].Kids[j], m.Kids[k]
					emit(fmt.Sprintf("$:cross %d.%d<->%d", i, j, k), m)
				}
			}
		}
	}
}

// Lexical is the fixed list of lexical edge cases (not derived from a seed).
func Lexical() map[string][]byte {
	deep := func(open, close string, n int, mid string) []byte {
		return []byte(strings.Repeat(open, n) + mid + strings.Repeat(close, n))
	}
	big := strings.Repeat("a", 64*1024)
	m := map[string][]byte{
		"empty":                {},
		"space":                []byte(" \n\t"),
		"bom":                  append([]byte{0xEF, 0xBB, 0xBF}, `{"type":"text/plain","content":"x"}`...),
		"nul":                  {0},
		"nul-in-string":        []byte("{\"type\":\"text/plain\",\"content\":\"a\x00b\"}"),
		"invalid-utf8":         []byte("{\"type\":\"text/plain\",\"content\":\"a\xff\xfeb\",\"id\":\"\xc3\"}"),
		"lone-surrogate":       []byte(`{"type":"text/plain","content":"\ud800","id":"\udc00x"}`),
		"surrogate-pair":       []byte(`{"type":"text/plain","content":"😀"}`),
		"bad-escape":           []byte(`{"type":"text/plain","content":"\q"}`),
		"1e400":                []byte(`{"type":"application/json","content":{"n":1e400}}`),
		"1e400-total":          []byte(`{"type":"application/vnd.lime.collection+json","content":{"itemType":"text/plain","total":1e400,"items":[]}}`),
		"big-int":              []byte(`{"type":"application/json","content":{"n":123456789012345678901234567890}}`),
		"big-int-code":         []byte(`{"event":"failed","reason":{"code":123456789012345678901234567890}}`),
		"neg-zero":             []byte(`{"type":"application/json","content":{"n":-0}}`),
		"leading-zero":         []byte(`{"type":"application/json","content":{"n":01}}`),
		"deep-array":           deep("[", "]", 10000, ""),
		"deep-array-9999":      deep("[", "]", 9999, ""),
		"deep-object":          deep(`{"a":`, "}", 10000, "1"),
		"deep-content":         []byte(`{"type":"application/json","content":` + string(deep(`{"a":`, "}", 5000, "1")) + `}`),
		"deep-container":       []byte(`{"type":"application/vnd.lime.container+json","content":` + string(deep(`{"type":"application/vnd.lime.container+json","value":`, "}", 2000, `{"type":"text/plain","value":"x"}`)) + `}`),
		"deep-unclosed":        []byte(strings.Repeat("[", 10000)),
		"big-string":           []byte(`{"type":"text/plain","content":"` + big + `"}`),
		"big-id":               []byte(`{"id":"` + big + `","event":"accepted"}`),
		"big-key":              []byte(`{"` + big + `":1,"event":"accepted"}`),
		"big-media-type":       []byte(`{"type":"` + big + `/` + big + `+json","content":{}}`),
		"many-slashes":         []byte(`{"from":"////@@@@////","to":"@/@/@","pp":"/","event":"accepted"}`),
		"many-plus":            []byte(`{"type":"++/++","content":"x"}`),
		"type-slash-only":      []byte(`{"type":"/","content":"x"}`),
		"type-slash-plus":      []byte(`{"type":"/+","content":"x"}`),
		"type-plus-json":       []byte(`{"type":"/+json","content":{}}`),
		"trailing-comma":       []byte(`{"event":"accepted",}`),
		"single-quotes":        []byte(`{'event':'accepted'}`),
		"comment":              []byte(`{"event":"accepted"/*c*/}`),
		"top-array":            []byte(`[{"event":"accepted"}]`),
		"top-string":           []byte(`"event"`),
		"top-number":           []byte(`1`),
		"top-null":             []byte(`null`),
		"crlf":                 []byte("{\"event\":\"accepted\"}\r\n{\"event\":\"failed\"}\r\n"),
		"upper-keys":           []byte(`{"EVENT":"accepted","ID":"1"}`),
		"uri-bad-escape":       []byte(`{"method":"get","uri":"%zz"}`),
		"uri-colon":            []byte(`{"method":"get","uri":":"}`),
		"uri-http":             []byte(`{"method":"get","uri":"http://x/y"}`),
		"uri-lime-noauth":      []byte(`{"method":"get","uri":"lime:"}`),
		"uri-ctl":              []byte("{\"method\":\"get\",\"uri\":\"/a\\u0000b\"}"),
		"uri-space":            []byte(`{"method":"get","uri":"a b"}`),
		"uri-empty":            []byte(`{"method":"get","uri":""}`),
		"status-empty":         []byte(`{"method":"get","status":""}`),
		"status-bogus":         []byte(`{"method":"get","status":"bogus"}`),
		"method-only":          []byte(`{"method":"get"}`),
		"state-empty":          []byte(`{"state":""}`),
		"event-empty":          []byte(`{"event":""}`),
		"scheme-empty":         []byte(`{"state":"new","scheme":"","authentication":{}}`),
		"auth-null":            []byte(`{"state":"new","scheme":"plain","authentication":null}`),
		"auth-string":          []byte(`{"state":"new","scheme":"plain","authentication":"x"}`),
		"auth-array":           []byte(`{"state":"new","scheme":"guest","authentication":[]}`),
		"content-null":         []byte(`{"type":"text/plain","content":null}`),
		"container-no-value":   []byte(`{"type":"application/vnd.lime.container+json","content":{"type":"text/plain"}}`),
		"container-null-value": []byte(`{"type":"application/vnd.lime.container+json","content":{"type":"text/plain","value":null}}`),
		"collection-null-item": []byte(`{"type":"application/vnd.lime.collection+json","content":{"itemType":"text/plain","items":[null]}}`),
		"receipt-null-event":   []byte(`{"type":"application/vnd.lime.receipt+json","content":{"events":[null]}}`),
		"delegation-empty-msg": []byte(`{"type":"application/vnd.lime.delegation+json","content":{"Messages":[{}]}}`),
		"container-empty":      []byte(`{"type":"application/vnd.lime.container+json","content":{}}`),
		"collection-empty":     []byte(`{"type":"application/vnd.lime.collection+json","content":{}}`),
	}
	return m
}
