// Package codec holds what the seqx codec checks (C01, C02, C11) share: a
// passive scripted net.Conn to push bytes through the REAL tcpTransport
// receive path, canonical equality of envelope values, exhaustive value
// generators and the structural JSON mutation enumerator.
package codec

import (
	"context"
	"encoding/json"
	"fmt"
	"io"
	"net"
	"runtime"
	"strings"
	"time"

	lime "github.com/takenet/lime-go"
)

// passiveConn is a net.Conn whose Read returns the scripted bytes and then
// io.EOF. It never blocks, never consults the clock; deadlines are no-ops.
type passiveConn struct {
	data []byte
	off  int
}

type addr struct{}

func (addr) Network() string { return "passive" }
func (addr) String() string  { return "passive" }

func (c *passiveConn) Read(b []byte) (int, error) {
	if c.off >= len(c.data) {
		return 0, io.EOF
	}
	n := copy(b, c.data[c.off:])
	c.off += n
	return n, nil
}
func (c *passiveConn) Write(b []byte) (int, error)      { return len(b), nil }
func (c *passiveConn) Close() error                     { return nil }
func (c *passiveConn) LocalAddr() net.Addr              { return addr{} }
func (c *passiveConn) RemoteAddr() net.Addr             { return addr{} }
func (c *passiveConn) SetDeadline(time.Time) error      { return nil }
func (c *passiveConn) SetReadDeadline(time.Time) error  { return nil }
func (c *passiveConn) SetWriteDeadline(time.Time) error { return nil }

// Recv is the outcome of feeding a byte string to the TCP transport: the
// envelopes Receive returned before the first error, that error (always
// non-nil at the end: EOF or a decode error), and the panic value + site if
// Receive panicked.
type Recv struct {
	Envs  []interface{} // *lime.Message | *lime.Notification | *lime.RequestCommand | *lime.ResponseCommand | *lime.Session
	Err   error
	Panic string // "" when no panic
	Site  string // top lime frame of the panic
}

// Receive pushes b through a fresh real tcpTransport (server role) over a
// passive connection and calls Receive until it fails; at most max envelopes.
func Receive(b []byte, max int) (r Recv) {
	t := lime.NewTCPTransportFromConn(&passiveConn{data: b}, nil, true)
	defer func() {
		if p := recover(); p != nil {
			r.Panic = fmt.Sprint(p)
			r.Site = panicSite()
		}
	}()
	ctx := context.Background()
	for i := 0; i < max; i++ {
		e, err := t.Receive(ctx)
		if err != nil {
			r.Err = err
			return
		}
		var v interface{} = e
		r.Envs = append(r.Envs, v)
	}
	return
}

// Kinds of envelope, in a fixed order.
var Kinds = []string{"Message", "Notification", "RequestCommand", "ResponseCommand", "Session"}

// KindOf names the kind of a decoded envelope value ("" if it is none).
func KindOf(v interface{}) string {
	switch v.(type) {
	case *lime.Message:
		return "Message"
	case *lime.Notification:
		return "Notification"
	case *lime.RequestCommand:
		return "RequestCommand"
	case *lime.ResponseCommand:
		return "ResponseCommand"
	case *lime.Session:
		return "Session"
	}
	return ""
}

// NewOf returns a fresh zero envelope pointer of the kind.
func NewOf(kind string) interface{} {
	switch kind {
	case "Message":
		return &lime.Message{}
	case "Notification":
		return &lime.Notification{}
	case "RequestCommand":
		return &lime.RequestCommand{}
	case "ResponseCommand":
		return &lime.ResponseCommand{}
	case "Session":
		return &lime.Session{}
	}
	panic("kind " + kind)
}

// Typed is the outcome of json.Unmarshal into the typed decoder of a kind.
type Typed struct {
	Env   interface{}
	Err   error
	Panic string
	Site  string
}

// DecodeTyped runs json.Unmarshal(b, new(kind)) under recover.
func DecodeTyped(kind string, b []byte) (r Typed) {
	defer func() {
		if p := recover(); p != nil {
			r.Panic = fmt.Sprint(p)
			r.Site = panicSite()
			r.Env = nil
		}
	}()
	v := NewOf(kind)
	r.Err = json.Unmarshal(b, v)
	if r.Err == nil {
		r.Env = v
	}
	return
}

// usedJSON is, per kind, a well-formed envelope with every optional member present: what a
// variable holds after an earlier decode.
var usedJSON = map[string]string{
	"Message":         `{"id":"old","from":"o@f.x/i","pp":"o@p.x/i","to":"o@t.x/i","metadata":{"old":"1"},"type":"text/plain","content":"old"}`,
	"Notification":    `{"id":"old","from":"o@f.x/i","pp":"o@p.x/i","to":"o@t.x/i","metadata":{"old":"1"},"event":"failed","reason":{"code":9,"description":"old"}}`,
	"RequestCommand":  `{"id":"old","from":"o@f.x/i","pp":"o@p.x/i","to":"o@t.x/i","metadata":{"old":"1"},"method":"set","uri":"/old","type":"text/plain","resource":"old"}`,
	"ResponseCommand": `{"id":"old","from":"o@f.x/i","pp":"o@p.x/i","to":"o@t.x/i","metadata":{"old":"1"},"method":"get","status":"failure","reason":{"code":9,"description":"old"},"type":"text/plain","resource":"old"}`,
	"Session":         `{"id":"old","from":"o@f.x/i","pp":"o@p.x/i","to":"o@t.x/i","metadata":{"old":"1"},"state":"authenticating","encryptionOptions":["none","tls"],"compressionOptions":["none"],"schemeOptions":["plain"],"scheme":"plain","authentication":{"password":"b2xk"},"reason":{"code":9,"description":"old"}}`,
}

// DecodeTypedReused decodes b into a variable that already holds an earlier envelope of the
// same kind (json.Unmarshal(b, &v) on a used v): the result must not depend on what v held.
func DecodeTypedReused(kind string, b []byte) (r Typed) {
	defer func() {
		if p := recover(); p != nil {
			r.Panic = fmt.Sprint(p)
			r.Site = panicSite()
			r.Env = nil
		}
	}()
	v := NewOf(kind)
	if err := json.Unmarshal([]byte(usedJSON[kind]), v); err != nil {
		panic("harness: usedJSON of " + kind + " does not decode: " + err.Error())
	}
	r.Err = json.Unmarshal(b, v)
	if r.Err == nil {
		r.Env = v
	}
	return
}

// Marshal runs json.Marshal under recover.
func Marshal(v interface{}) (b []byte, err error, pan string) {
	defer func() {
		if p := recover(); p != nil {
			pan = fmt.Sprint(p)
		}
	}()
	b, err = json.Marshal(v)
	return
}

// panicSite returns the innermost lime-go frame on the panicking stack and,
// unless that is a decoder entry point, its lime-go caller: "Inner<-Caller"
// (called from a deferred function); this is the stable
// identity of a panic, independent of the input that reached it.
func panicSite() string {
	pc := make([]uintptr, 64)
	n := runtime.Callers(3, pc)
	fr := runtime.CallersFrames(pc[:n])
	var sites []string
	for len(sites) < 2 {
		f, more := fr.Next()
		if strings.Contains(f.Function, "takenet/lime-go.") {
			fn := f.Function[strings.LastIndex(f.Function, "lime-go.")+len("lime-go."):]
			sites = append(sites, strings.NewReplacer("(*", "", ")", "").Replace(fn))
		}
		if !more {
			break
		}
	}
	if len(sites) == 0 {
		return "?"
	}
	// the same faulty function is reached from the typed decoder and from the
	// transport: do not let the entry point split one root cause in two
	if len(sites) == 2 && (strings.HasSuffix(sites[1], ".UnmarshalJSON") || strings.HasSuffix(sites[1], ".toEnvelope") || strings.HasSuffix(sites[1], ".Receive")) {
		sites = sites[:1]
	}
	return strings.Join(sites, "<-")
}
