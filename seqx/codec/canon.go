package codec

import (
	"net/url"
	"reflect"
	"sort"
	"strconv"
	"strings"
	"time"

	lime "github.com/takenet/lime-go"
)

// Tree is the canonical form of a value, built by walking the Go value with
// reflection (it never calls the library's marshalling code, so a field that
// is dropped symmetrically by encode and decode still shows as a difference).
//
// Equalities it deliberately makes, and nothing else:
//   - nil and empty maps / slices are the same (Leaf "~"), as is a nil
//     pointer / nil interface;
//   - a pointer and the value it points to are the same (so *TextDocument ==
//     TextDocument);
//   - every number is a float64 (float32 fields: their shortest decimal);
//   - *lime.URI is its text; time.Time its RFC 3339 text; url.Userinfo its text;
//   - a value held in a non-empty interface (Document, Authentication) carries
//     its concrete type name (Tag), so the document / authentication KIND is
//     part of the comparison; the top-level value likewise (envelope kind).
type Tree struct {
	Tag   string // concrete type name when the value sits in a typed interface / at top level
	Leaf  string // scalar rendering, or "~" for absent; "" for composite
	Names []string
	Kids  []*Tree
	Emb   []bool // Kids[i] is an embedded struct field
}

// Canon builds the canonical tree of v.
func Canon(v interface{}) *Tree {
	rv := reflect.ValueOf(v)
	t := canon(rv)
	if rv.IsValid() {
		t.Tag = baseType(rv.Type()).String()
	}
	return t
}

// String renders the tree; two values are canonically equal iff the strings are.
func (t *Tree) String() string {
	var sb strings.Builder
	t.write(&sb)
	return sb.String()
}

func (t *Tree) write(sb *strings.Builder) {
	if t.Tag != "" {
		sb.WriteString("<" + t.Tag + ">")
	}
	if t.Kids == nil {
		sb.WriteString(t.Leaf)
		return
	}
	sb.WriteString("{")
	for i, k := range t.Kids {
		sb.WriteString(t.Names[i] + ":")
		k.write(sb)
		sb.WriteString(",")
	}
	sb.WriteString("}")
}

// Diff returns "" when a and b are canonically equal, else the path class of
// the first difference, made order- and nesting-independent: it starts at the
// innermost typed value that contains the difference, or at the embedded base
// struct directly inside it (e.g. "<lime.DocumentCollection>.Total",
// "Envelope.PP.Identity.Name" for every envelope kind), with
// slice positions written "[]" and map keys "{}".
func Diff(a, b *Tree) string {
	if equal(a, b) {
		return ""
	}
	p := diff(a, b, nil)
	if p == nil {
		return ""
	}
	start := 0
	for i, s := range p {
		if strings.HasPrefix(s, "<") {
			start = i
		}
	}
	// skip to the last of the embedded structs that directly follow the type
	// marker: <lime.Message>^Envelope.PP... and <lime.RequestCommand>^Command^Envelope.PP...
	// both become Envelope.PP...
	for start+1 < len(p) && strings.HasPrefix(p[start+1], "^") {
		start++
	}
	out := strings.Join(p[start:], "")
	return strings.TrimPrefix(strings.ReplaceAll(out, "^", "."), ".")
}

// equal is the allocation-free fast path of Diff.
func equal(a, b *Tree) bool {
	if a.Tag != b.Tag || a.Leaf != b.Leaf || len(a.Kids) != len(b.Kids) || (a.Kids == nil) != (b.Kids == nil) {
		return false
	}
	for i := range a.Kids {
		if a.Names[i] != b.Names[i] || !equal(a.Kids[i], b.Kids[i]) {
			return false
		}
	}
	return true
}

func diff(a, b *Tree, path []string) []string {
	if a.Tag != b.Tag {
		return append(path, "<"+a.Tag+"!="+b.Tag+">")
	}
	if a.Tag != "" {
		path = append(path, "<"+a.Tag+">")
	}
	if a.Kids == nil || b.Kids == nil {
		if a.Kids == nil && b.Kids == nil && a.Leaf == b.Leaf {
			return nil
		}
		return append(path, "") // differs at this node
	}
	if len(a.Kids) != len(b.Kids) {
		return append(path, ".len")
	}
	for i := range a.Kids {
		if a.Names[i] != b.Names[i] {
			return append(path, ".keys")
		}
		seg := "." + a.Names[i]
		if a.Emb != nil && a.Emb[i] {
			seg = "^" + a.Names[i]
		} else if strings.HasPrefix(a.Names[i], "[") {
			seg = "[]"
		} else if strings.HasPrefix(a.Names[i], "\"") {
			seg = "{}"
		}
		if d := diff(a.Kids[i], b.Kids[i], append(append([]string{}, path...), seg)); d != nil {
			return d
		}
	}
	return nil
}

func baseType(t reflect.Type) reflect.Type {
	for t.Kind() == reflect.Ptr {
		t = t.Elem()
	}
	return t
}

var (
	tURI      = reflect.TypeOf(lime.URI{})
	tTime     = reflect.TypeOf(time.Time{})
	tUserinfo = reflect.TypeOf(url.Userinfo{})
	absent    = "~"
)

func leaf(s string) *Tree { return &Tree{Leaf: s} }

func canon(v reflect.Value) *Tree {
	if !v.IsValid() {
		return leaf(absent)
	}
	switch v.Kind() {
	case reflect.Ptr:
		if v.IsNil() {
			return leaf(absent)
		}
		switch v.Type().Elem() {
		case tURI:
			// the text the type prints, and (read off the parsed URL it wraps, so that the text
			// itself is under test too) its path, query and fragment
			parts := ""
			if f := v.Elem().Field(0); f.Kind() == reflect.Ptr && !f.IsNil() {
				u := f.Elem()
				parts = " path=" + strconv.Quote(u.FieldByName("Path").String()) + " query=" + strconv.Quote(u.FieldByName("RawQuery").String()) + " fragment=" + strconv.Quote(u.FieldByName("Fragment").String())
			}
			return leaf("uri(" + strconv.Quote(v.Interface().(*lime.URI).String()) + parts + ")")
		case tUserinfo:
			return leaf("userinfo(" + strconv.Quote(v.Interface().(*url.Userinfo).String()) + ")")
		}
		return canon(v.Elem())
	case reflect.Interface:
		if v.IsNil() {
			return leaf(absent)
		}
		t := canon(v.Elem())
		if v.Type().NumMethod() > 0 {
			t.Tag = baseType(v.Elem().Type()).String()
		}
		return t
	case reflect.Struct:
		if v.Type() == tTime {
			return leaf("time(" + v.Interface().(time.Time).Format(time.RFC3339Nano) + ")")
		}
		t := &Tree{Kids: []*Tree{}}
		vt := v.Type()
		for i := 0; i < vt.NumField(); i++ {
			f := vt.Field(i)
			if f.PkgPath != "" && !f.Anonymous {
				continue // unexported, non-embedded
			}
			t.Names = append(t.Names, f.Name)
			t.Kids = append(t.Kids, canon(v.Field(i)))
			t.Emb = append(t.Emb, f.Anonymous)
		}
		return t
	case reflect.Map:
		if v.Len() == 0 {
			return leaf(absent)
		}
		keys := v.MapKeys()
		sort.Slice(keys, func(i, j int) bool { return keys[i].String() < keys[j].String() })
		t := &Tree{}
		for _, k := range keys {
			t.Names = append(t.Names, strconv.Quote(k.String()))
			t.Kids = append(t.Kids, canon(v.MapIndex(k)))
		}
		return t
	case reflect.Slice, reflect.Array:
		if v.Len() == 0 {
			return leaf(absent)
		}
		t := &Tree{}
		for i := 0; i < v.Len(); i++ {
			t.Names = append(t.Names, "["+strconv.Itoa(i)+"]")
			t.Kids = append(t.Kids, canon(v.Index(i)))
		}
		return t
	case reflect.String:
		return leaf(strconv.Quote(v.String()))
	case reflect.Bool:
		return leaf(strconv.FormatBool(v.Bool()))
	case reflect.Int, reflect.Int8, reflect.Int16, reflect.Int32, reflect.Int64:
		return leaf(strconv.FormatFloat(float64(v.Int()), 'g', -1, 64))
	case reflect.Uint, reflect.Uint8, reflect.Uint16, reflect.Uint32, reflect.Uint64:
		return leaf(strconv.FormatFloat(float64(v.Uint()), 'g', -1, 64))
	case reflect.Float32:
		return leaf(strconv.FormatFloat(v.Float(), 'g', -1, 32))
	case reflect.Float64:
		return leaf(strconv.FormatFloat(v.Float(), 'g', -1, 64))
	}
	return leaf("?" + v.Kind().String())
}
