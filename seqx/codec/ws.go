package codec

import (
	"bufio"
	"context"
	"encoding/binary"
	"fmt"
	"io"
	"net"
	"net/http"
	"time"

	"github.com/gorilla/websocket"
	lime "github.com/takenet/lime-go"
)

// stagedConn is a passive net.Conn whose scripted bytes come in stages: one
// Read never crosses a stage boundary, so the opening handshake can be read
// without the frames behind it ending up in the handshake's buffer.
type stagedConn struct {
	stages [][]byte
	out    []byte
}

func (c *stagedConn) Read(b []byte) (int, error) {
	for len(c.stages) > 0 && len(c.stages[0]) == 0 {
		c.stages = c.stages[1:]
	}
	if len(c.stages) == 0 {
		return 0, io.EOF
	}
	n := copy(b, c.stages[0])
	c.stages[0] = c.stages[0][n:]
	return n, nil
}
func (c *stagedConn) Write(b []byte) (int, error)      { c.out = append(c.out, b...); return len(b), nil }
func (c *stagedConn) Close() error                     { return nil }
func (c *stagedConn) LocalAddr() net.Addr              { return addr{} }
func (c *stagedConn) RemoteAddr() net.Addr             { return addr{} }
func (c *stagedConn) SetDeadline(time.Time) error      { return nil }
func (c *stagedConn) SetReadDeadline(time.Time) error  { return nil }
func (c *stagedConn) SetWriteDeadline(time.Time) error { return nil }

type hijackWriter struct {
	conn net.Conn
	brw  *bufio.ReadWriter
	hdr  http.Header
}

func (h *hijackWriter) Header() http.Header         { return h.hdr }
func (h *hijackWriter) Write(b []byte) (int, error) { return h.conn.Write(b) }
func (h *hijackWriter) WriteHeader(int)             {}
func (h *hijackWriter) Hijack() (net.Conn, *bufio.ReadWriter, error) {
	return h.conn, h.brw, nil
}

const wsRequest = "GET / HTTP/1.1\r\nHost: srv.test\r\nConnection: Upgrade\r\nUpgrade: websocket\r\n" +
	"Sec-WebSocket-Version: 13\r\nSec-WebSocket-Key: dGhlIHNhbXBsZSBub25jZQ==\r\nSec-WebSocket-Protocol: lime\r\n\r\n"

// wsTextFrame is one final text frame as a client sends it (masked; the mask
// key is zero, so the payload travels unchanged).
func wsTextFrame(p []byte) []byte {
	f := []byte{0x81}
	switch {
	case len(p) < 126:
		f = append(f, 0x80|byte(len(p)))
	case len(p) < 65536:
		f = append(f, 0x80|126, 0, 0)
		binary.BigEndian.PutUint16(f[2:], uint16(len(p)))
	default:
		f = append(f, 0x80|127, 0, 0, 0, 0, 0, 0, 0, 0)
		binary.BigEndian.PutUint64(f[2:], uint64(len(p)))
	}
	f = append(f, 0, 0, 0, 0)
	return append(f, p...)
}

// wsServerConn upgrades a staged passive connection the way the library's
// WebSocket listener does (gorilla upgrader, subprotocol "lime") and returns
// the upgraded connection whose inbound frames are the given messages.
func wsServerConn(msgs [][]byte) (*websocket.Conn, *stagedConn) {
	sc := &stagedConn{stages: [][]byte{[]byte(wsRequest)}}
	for _, m := range msgs {
		sc.stages = append(sc.stages, wsTextFrame(m))
	}
	br := bufio.NewReader(sc)
	req, err := http.ReadRequest(br)
	if err != nil {
		panic("harness: websocket request: " + err.Error())
	}
	up := &websocket.Upgrader{Subprotocols: []string{"lime"}}
	w := &hijackWriter{conn: sc, brw: bufio.NewReadWriter(br, bufio.NewWriter(sc)), hdr: http.Header{}}
	c, err := up.Upgrade(w, req, nil)
	if err != nil {
		panic("harness: websocket upgrade: " + err.Error())
	}
	sc.out = nil
	return c, sc
}

// ReceiveWS delivers every element of msgs as one text message to a fresh
// REAL websocketTransport (server role, over a real gorilla connection on a
// passive scripted net.Conn) and calls Receive until it fails; at most max
// envelopes.
func ReceiveWS(msgs [][]byte, max int) (r Recv) {
	c, _ := wsServerConn(msgs)
	t := lime.NewWebsocketTransportFromConn(c, false)
	defer func() {
		if p := recover(); p != nil {
			r.Panic = fmt.Sprint(p)
			r.Site = panicSite()
		}
	}()
	ctx := context.Background()
	for i := 0; i < max; i++ {
		e, err := t.Receive(ctx)
		if err != nil {
			r.Err = err
			return
		}
		var v interface{} = e
		r.Envs = append(r.Envs, v)
	}
	return
}

// SendWS sends e through a fresh real websocketTransport and returns the
// payloads of the text frames it wrote (server role: unmasked frames).
func SendWS(e interface{}) (payloads [][]byte, err error, pan string) {
	c, sc := wsServerConn(nil)
	t := lime.NewWebsocketTransportFromConn(c, false)
	func() {
		defer func() {
			if p := recover(); p != nil {
				pan = fmt.Sprint(p)
			}
		}()
		err = sendAny(t, e)
	}()
	if err != nil || pan != "" {
		return
	}
	b := sc.out
	for len(b) >= 2 {
		if b[0] != 0x81 || b[1]&0x80 != 0 {
			err = fmt.Errorf("harness: unexpected frame header % x", b[:2])
			return
		}
		n, h := int(b[1]&0x7f), 2
		switch n {
		case 126:
			n, h = int(binary.BigEndian.Uint16(b[2:])), 4
		case 127:
			n, h = int(binary.BigEndian.Uint64(b[2:])), 10
		}
		if len(b) < h+n {
			err = fmt.Errorf("harness: short frame")
			return
		}
		payloads = append(payloads, b[h:h+n])
		b = b[h+n:]
	}
	return
}

func sendAny(t lime.Transport, e interface{}) error {
	ctx := context.Background()
	switch v := e.(type) {
	case *lime.Message:
		return t.Send(ctx, v)
	case *lime.Notification:
		return t.Send(ctx, v)
	case *lime.RequestCommand:
		return t.Send(ctx, v)
	case *lime.ResponseCommand:
		return t.Send(ctx, v)
	case *lime.Session:
		return t.Send(ctx, v)
	}
	panic(fmt.Sprintf("harness: not an envelope: %T", e))
}
