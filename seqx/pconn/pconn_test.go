//go:build verif

package pconn

import (
	"bytes"
	"context"
	"io"
	"net"
	"testing"

	lime "github.com/takenet/lime-go"
)

func isTempTimeout(err error) bool {
	ne, ok := err.(net.Error)
	return ok && ne.Timeout() && ne.Temporary()
}

func TestErrors(t *testing.T) {
	if !isTempTimeout(ErrTimeout) {
		t.Fatal("ErrTimeout must be a temporary timeout")
	}
	if isTempTimeout(ErrHard) || ErrHard == io.EOF {
		t.Fatal("ErrHard must be permanent")
	}
}

func TestReadPlan(t *testing.T) {
	p, err := Parse("d3 t T2 d1*2 E4")
	if err != nil {
		t.Fatal(err)
	}
	if p.String() != "d3 t T2 d1 d1 E4" {
		t.Fatal(p.String())
	}
	c := New([]byte("0123456789ABCDEF"), p, nil)
	b := make([]byte, 8)
	type step struct {
		n   int
		err error
	}
	want := []step{{3, nil}, {0, ErrTimeout}, {2, ErrTimeout}, {1, nil}, {1, nil}, {4, io.EOF}, {0, io.EOF}, {0, io.EOF}}
	for i, w := range want {
		n, err := c.Read(b)
		if n != w.n || err != w.err {
			t.Fatalf("read %d: got (%d,%v) want (%d,%v)", i, n, err, w.n, w.err)
		}
	}
	if c.Delivered() != 11 {
		t.Fatal(c.Delivered())
	}
	o := p.Outcome(16)
	if o.Delivered != 11 || !o.Cut || o.HardEnd || !o.DataEOF || o.DataTO != 1 || o.Stalls != 1 {
		t.Fatalf("%+v", o)
	}
	// small reader buffer: a segment is drained over several reads
	c = New([]byte("0123456789"), Plan{{'d', 7}}, nil)
	b = make([]byte, 3)
	var got []int
	for {
		n, err := c.Read(b)
		if err != nil {
			if err != io.EOF {
				t.Fatal(err)
			}
			break
		}
		got = append(got, n)
	}
	if len(got) != 4 || got[0] != 3 || got[1] != 3 || got[2] != 1 || got[3] != 3 {
		t.Fatal(got)
	}
}

func TestWritePlan(t *testing.T) {
	cancelled := false
	c := New(nil, nil, Plan{{'s', 2}, {'a', 0}, {'c', 1}, {'x', 3}})
	c.OnCancel = func() { cancelled = true }
	n, err := c.Write([]byte("hello"))
	if n != 2 || err != ErrTimeout {
		t.Fatal(n, err)
	}
	n, err = c.Write([]byte("llo"))
	if n != 3 || err != nil {
		t.Fatal(n, err)
	}
	n, err = c.Write([]byte("ab"))
	if n != 1 || err != ErrTimeout || !cancelled || c.HardWriteAt != 2 {
		t.Fatal(n, err, cancelled, c.HardWriteAt)
	}
	n, err = c.Write([]byte("wxyz"))
	if n != 3 || err != ErrHard {
		t.Fatal(n, err)
	}
	n, err = c.Write([]byte("q"))
	if n != 0 || err != ErrHard {
		t.Fatal(n, err)
	}
	if string(c.Out) != "helloawxy" {
		t.Fatal(string(c.Out))
	}
}

func TestRoundTripThroughRealTransport(t *testing.T) {
	items := SmallEnvelopes()
	items = append(items, PaddedMessage("pad", 300))
	w := New(nil, nil, nil)
	tx := lime.NewTCPTransportFromConn(w, nil, false)
	ctx := context.Background()
	for _, it := range items {
		var err error
		switch e := it.Env.(type) {
		case *lime.Message:
			err = tx.Send(ctx, e)
		case *lime.Notification:
			err = tx.Send(ctx, e)
		case *lime.RequestCommand:
			err = tx.Send(ctx, e)
		case *lime.ResponseCommand:
			err = tx.Send(ctx, e)
		case *lime.Session:
			err = tx.Send(ctx, e)
		}
		if err != nil {
			t.Fatal(err)
		}
	}
	if !bytes.Equal(w.Out, Concat(items)) {
		t.Fatalf("wire differs from reference encodings:\n%q", w.Out)
	}
	r := New(w.Out, nil, nil)
	rx := lime.NewTCPTransportFromConn(r, nil, true)
	for _, it := range items {
		r.Mark()
		env, err := rx.Receive(ctx)
		if err != nil {
			t.Fatal(it.Name, err)
		}
		var any interface{} = env
		c, err := Canon(any)
		if err != nil || c != it.Canon {
			t.Fatalf("%s: got %s want %s (%v)", it.Name, c, it.Canon, err)
		}
		t.Logf("%-8s %3d bytes %s", it.Name, it.Size(), it.Canon)
	}
	if _, err := rx.Receive(ctx); err == nil {
		t.Fatal("expected EOF")
	}
}
