package pconn

import (
	"bytes"
	"context"
	"encoding/json"
	"errors"
	"fmt"
	"strings"
	"sync/atomic"
	"time"

	lime "github.com/takenet/lime-go"
)

// Item is one envelope of a test stream together with its reference forms.
type Item struct {
	Name  string
	Env   interface{} // *lime.Message, *lime.Notification, ...
	Canon string      // json.Marshal of the pointer: the content that must arrive
	Enc   []byte      // reference wire encoding: json.Encoder output, i.e. Canon + "\n"
}

// Size is the encoded size of the envelope on the wire INCLUDING the trailing
// newline the transport's encoder writes after every envelope.
func (it *Item) Size() int { return len(it.Enc) }

// NewItem computes the reference forms of env.
func NewItem(name string, env interface{}) *Item {
	b, err := json.Marshal(env)
	if err != nil {
		panic(fmt.Sprintf("pconn: cannot marshal %s: %v", name, err))
	}
	var buf bytes.Buffer
	if err := json.NewEncoder(&buf).Encode(env); err != nil {
		panic(err)
	}
	if !bytes.Equal(buf.Bytes(), append(append([]byte{}, b...), '\n')) {
		panic("pconn: json.Encoder output is not Marshal+newline for " + name)
	}
	return &Item{Name: name, Env: env, Canon: string(b), Enc: buf.Bytes()}
}

// Canon is the canonical content of a received envelope ("" and an error when
// it cannot be marshalled).
func Canon(env interface{}) (string, error) {
	b, err := json.Marshal(env)
	return string(b), err
}

func node(s string) lime.Node { return lime.ParseNode(s) }

// SmallEnvelopes is the catalogue of small envelopes, one per kind, with
// fixed ids (no randomness): message, notification, request command, response
// command, session.
func SmallEnvelopes() []*Item {
	msg := &lime.Message{}
	msg.SetID("m1").SetTo(node("bob@d.com"))
	msg.SetContent(lime.TextDocument("hello \"w\"\n"))

	not := &lime.Notification{}
	not.SetID("m1").SetFrom(node("bob@d.com/x"))
	not.SetEvent(lime.NotificationEventReceived)

	req := &lime.RequestCommand{}
	req.SetID("c1")
	req.SetMethod(lime.CommandMethodGet)
	req.SetURIString("/presence")

	rsp := &lime.ResponseCommand{}
	rsp.SetID("c1").SetFrom(node("postmaster@d.com"))
	rsp.Method = lime.CommandMethodGet
	rsp.Status = lime.CommandStatusSuccess
	rsp.SetResource(&lime.JsonDocument{"k": []interface{}{1.0, "{}"}})

	ses := &lime.Session{}
	ses.SetID("s1")
	ses.State = lime.SessionStateNegotiating
	ses.EncryptionOptions = []lime.SessionEncryption{lime.SessionEncryptionNone, lime.SessionEncryptionTLS}

	return []*Item{
		NewItem("msg", msg),
		NewItem("not", not),
		NewItem("req", req),
		NewItem("rsp", rsp),
		NewItem("ses", ses),
	}
}

// PaddedMessage returns a text message whose encoded size (Item.Size, i.e.
// including the trailing newline) is exactly size bytes, by padding the value
// of one metadata entry with the letter 'p'. It panics when size is smaller
// than the unpadded envelope.
func PaddedMessage(id string, size int) *Item {
	mk := func(pad int) *lime.Message {
		m := &lime.Message{}
		m.SetID(id)
		m.SetMetadataKeyValue("p", strings.Repeat("p", pad))
		m.SetContent(lime.TextDocument("x"))
		return m
	}
	base := NewItem(id, mk(0))
	if size < base.Size() {
		panic(fmt.Sprintf("pconn: size %d below minimum %d", size, base.Size()))
	}
	it := NewItem(fmt.Sprintf("%s/%d", id, size), mk(size-base.Size()))
	if it.Size() != size {
		panic("pconn: padding did not give the exact size")
	}
	return it
}

// MinPaddedSize is the smallest size PaddedMessage can produce for id.
func MinPaddedSize(id string) int {
	m := &lime.Message{}
	m.SetID(id)
	m.SetMetadataKeyValue("p", "")
	m.SetContent(lime.TextDocument("x"))
	return NewItem(id, m).Size()
}

// Concat concatenates the reference encodings.
func Concat(items []*Item) []byte {
	var b []byte
	for _, it := range items {
		b = append(b, it.Enc...)
	}
	return b
}

// Send passes env (one of the five envelope pointer types) to t.Send; the
// indirection is needed because Transport.Send takes an unexported interface.
// ErrSpin is returned by Send/Receive when the transport call did not come back within the
// safety deadline although the scripted connection never blocks: it is spinning.
var ErrSpin = errors.New("pconn: the transport call does not return on a connection that never blocks")

var spinSeen atomic.Bool

// guard bounds one transport call in real time (15 s; 200 ms once a spin was seen, so that a
// spinning implementation does not turn the enumeration into hours).
func guard(ctx context.Context) (context.Context, context.CancelFunc) {
	d := 15 * time.Second
	if spinSeen.Load() {
		d = 200 * time.Millisecond
	}
	return context.WithTimeout(ctx, d)
}

func spun(ctx, gctx context.Context, err error) error {
	if gctx.Err() == context.DeadlineExceeded && ctx.Err() == nil {
		spinSeen.Store(true)
		return fmt.Errorf("%w (%v)", ErrSpin, err)
	}
	return err
}

func Send(ctx context.Context, t lime.Transport, env interface{}) error {
	gctx, cancel := guard(ctx)
	defer cancel()
	return spun(ctx, gctx, send(gctx, t, env))
}

func send(ctx context.Context, t lime.Transport, env interface{}) error {
	switch e := env.(type) {
	case *lime.Message:
		return t.Send(ctx, e)
	case *lime.Notification:
		return t.Send(ctx, e)
	case *lime.RequestCommand:
		return t.Send(ctx, e)
	case *lime.ResponseCommand:
		return t.Send(ctx, e)
	case *lime.Session:
		return t.Send(ctx, e)
	}
	panic(fmt.Sprintf("pconn: not an envelope: %T", env))
}

// Receive calls t.Receive and returns the envelope as an empty interface
// (nil when the transport returned a nil envelope).
func Receive(ctx context.Context, t lime.Transport) (interface{}, error) {
	gctx, cancel := guard(ctx)
	defer cancel()
	env, err := t.Receive(gctx)
	if err != nil {
		return nil, spun(ctx, gctx, err)
	}
	var v interface{} = env
	switch e := v.(type) {
	case *lime.Message:
		if e == nil {
			return nil, nil
		}
	case *lime.Notification:
		if e == nil {
			return nil, nil
		}
	case *lime.RequestCommand:
		if e == nil {
			return nil, nil
		}
	case *lime.ResponseCommand:
		if e == nil {
			return nil, nil
		}
	case *lime.Session:
		if e == nil {
			return nil, nil
		}
	case nil:
		return nil, nil
	}
	return v, nil
}

// PaddedSession returns a well-formed session envelope (state "new") whose
// encoded size (Item.Size: the JSON text plus the trailing newline written by
// the transport's encoder) is exactly size bytes. The value of one metadata
// entry is padded with 'p'; sizes too small for a metadata entry are reached
// by padding the id instead, and MinSessionSize is the unpadded envelope.
func PaddedSession(size int) *Item {
	mk := func(id string, meta *string) *lime.Session {
		s := &lime.Session{}
		s.State = lime.SessionStateNew
		if id != "" {
			s.SetID(id)
		}
		if meta != nil {
			s.SetMetadataKeyValue("p", *meta)
		}
		return s
	}
	name := fmt.Sprintf("ses/%d", size)
	empty := ""
	minMeta := NewItem("", mk("", &empty)).Size()
	minID := NewItem("", mk("p", nil)).Size()
	var it *Item
	switch {
	case size >= minMeta:
		pad := strings.Repeat("p", size-minMeta)
		it = NewItem(name, mk("", &pad))
	case size >= minID:
		it = NewItem(name, mk(strings.Repeat("p", 1+size-minID), nil))
	case size == MinSessionSize():
		it = NewItem(name, mk("", nil))
	default:
		panic(fmt.Sprintf("pconn: no well-formed session of %d bytes", size))
	}
	if it.Size() != size {
		panic(fmt.Sprintf("pconn: padding gave %d bytes instead of %d", it.Size(), size))
	}
	return it
}

// MinSessionSize is the size of the smallest envelope PaddedSession makes:
// {"state":"new"} plus newline.
func MinSessionSize() int {
	s := &lime.Session{}
	s.State = lime.SessionStateNew
	return NewItem("", s).Size()
}

// Junk returns a JSON value of exactly `size` bytes on the wire (newline included)
// that decodes as JSON but is no envelope (it has an id and metadata only), so a
// Receive rejects it without the stream becoming unreadable.
func Junk(size int) *Item {
	const frame = len(`{"id":"j","metadata":{"p":""}}`) + 1
	if size < frame {
		size = frame
	}
	enc := []byte(`{"id":"j","metadata":{"p":"` + strings.Repeat("j", size-frame) + `"}}` + "\n")
	return &Item{Name: fmt.Sprintf("junk/%d", size), Canon: string(enc[:len(enc)-1]), Enc: enc}
}
