// Package pconn is the passive scripted connection of the seqx engine: a
// net.Conn whose Read and Write answers come from a finite plan. It never
// blocks, never starts a goroutine and never consults the wall clock, so the
// retry loops of lime's ctxConn and the buffering of encoding/json are
// executed deterministically by the calling goroutine.
//
// Read side. The plan describes how the pending inbound stream *arrives*:
//
//	dN  a segment of N bytes arrives (N<=0: everything that is left). A Read
//	    hands out min(len(b), rest of the segment); the next action is taken
//	    only once the segment is drained.
//	t   the Read returns (0, temporary timeout)
//	TN  the Read hands out up to N bytes *together with* a temporary timeout
//	    (allowed by the io.Reader contract; what is left of N stays a segment)
//	e   (0, io.EOF), sticky
//	EN  up to N bytes together with io.EOF (crypto/tls does this when a
//	    close_notify follows the data); afterwards (0, io.EOF), sticky
//	x   (0, hard error), sticky
//	XN  up to N bytes together with the hard error, afterwards sticky
//
// When the plan is exhausted the default applies: everything that is left is
// one segment; with nothing left: (0, io.EOF).
//
// Write side, one action per Write call:
//
//	a   accept everything
//	sN  accept N bytes, return (N, temporary timeout) like a socket whose
//	    send buffer filled up before the write deadline (N=0: pure stall)
//	xN  accept N bytes, return (N, hard error); sticky: later writes (0, hard)
//	cN  like sN, and the write context handed to the operation is cancelled
//	    before the call returns (OnCancel hook)
//
// N is clamped to len(b)-1 for s/x/c. Exhausted plan: accept everything.
package pconn

import (
	"errors"
	"fmt"
	"io"
	"net"
	"os"
	"strconv"
	"strings"
	"syscall"
	"time"
)

// Act is one plan step; K is the action letter, N its byte count.
type Act struct {
	K byte
	N int
}

// Plan is a finite list of steps.
type Plan []Act

func (a Act) String() string {
	switch a.K {
	case 't', 'e', 'a':
		return string(a.K)
	case 'x':
		if a.N == 0 {
			return "x"
		}
	}
	return string(a.K) + strconv.Itoa(a.N)
}

// AppendTo appends the textual form of the plan to dst.
func (p Plan) AppendTo(dst []byte) []byte {
	for i, a := range p {
		if i > 0 {
			dst = append(dst, ' ')
		}
		dst = append(dst, a.K)
		switch a.K {
		case 't', 'e', 'a':
		default:
			dst = strconv.AppendInt(dst, int64(a.N), 10)
		}
	}
	return dst
}

func (p Plan) String() string { return string(p.AppendTo(nil)) }

// Parse reads the textual form produced by String. A step may carry a
// repetition suffix "*R" (e.g. "d1*40").
func Parse(s string) (Plan, error) {
	var p Plan
	for _, f := range strings.Fields(s) {
		rep := 1
		if i := strings.IndexByte(f, '*'); i >= 0 {
			r, err := strconv.Atoi(f[i+1:])
			if err != nil || r < 0 {
				return nil, fmt.Errorf("pconn: bad repetition in %q", f)
			}
			rep, f = r, f[:i]
		}
		if f == "" {
			return nil, errors.New("pconn: empty step")
		}
		a := Act{K: f[0]}
		if !strings.ContainsRune("dtTeExXasc", rune(a.K)) {
			return nil, fmt.Errorf("pconn: unknown step %q", f)
		}
		if len(f) > 1 {
			n, err := strconv.Atoi(f[1:])
			if err != nil {
				return nil, fmt.Errorf("pconn: bad step %q", f)
			}
			a.N = n
		}
		for ; rep > 0; rep-- {
			p = append(p, a)
		}
	}
	return p, nil
}

// ErrTimeout is the temporary timeout the connection reports: a net.Error
// with Timeout()==true and Temporary()==true, as a socket past its deadline.
var ErrTimeout error = &net.OpError{Op: "io", Net: "pconn", Err: os.ErrDeadlineExceeded}

// ErrHard is the permanent failure the connection reports (not a timeout,
// not temporary, not io.EOF).
var ErrHard error = &net.OpError{Op: "io", Net: "pconn", Err: syscall.ECONNRESET}

type addr struct{}

func (addr) Network() string { return "pconn" }
func (addr) String() string  { return "pconn" }

// Conn is the scripted connection. Not safe for concurrent use (by design:
// the checks are sequential).
type Conn struct {
	In    []byte // pending inbound stream
	RPlan Plan
	WPlan Plan
	Out   []byte // every byte accepted by Write: what reached the far side

	// OnCancel is called by the 'c' write action.
	OnCancel func()

	inPos  int
	rIdx   int
	seg    int   // bytes left in the current read segment
	segOn  bool  // a segment is being drained
	segEnd error // terminal answer that accompanies the last byte of the segment
	rEnd   error // sticky terminal read answer
	wIdx   int
	wEnd   error
	closed bool

	Reads, Writes  int   // number of Read / Write calls
	Deadlines      int   // number of Set*Deadline calls (recorded no-ops)
	Handed         int   // bytes handed out by Read since the last Mark
	MaxHanded      int   // maximum of Handed over all marked intervals
	WriteLens      []int // len(b) of every Write call
	WriteFault     []int // indices of the Write calls that applied an s/x/c step
	HardWriteAt    int   // index of the first Write call that applied x or c (-1)
	TimeoutsServed int   // temporary timeouts returned (either direction)
}

// New returns a connection with the given inbound stream and plans.
func New(in []byte, rplan, wplan Plan) *Conn {
	return &Conn{In: in, RPlan: rplan, WPlan: wplan, HardWriteAt: -1}
}

// Reset re-arms the connection for another run, keeping its buffers.
func (c *Conn) Reset(in []byte, rplan, wplan Plan) {
	out, wl, wf := c.Out[:0], c.WriteLens[:0], c.WriteFault[:0]
	*c = Conn{In: in, RPlan: rplan, WPlan: wplan, HardWriteAt: -1, Out: out, WriteLens: wl, WriteFault: wf}
}

// Mark starts a new accounting interval (the driver calls it before each
// Receive) and returns the bytes handed out during the previous one.
func (c *Conn) Mark() int {
	h := c.Handed
	c.Handed = 0
	return h
}

// Delivered is the number of inbound bytes handed out so far.
func (c *Conn) Delivered() int { return c.inPos }

func (c *Conn) hand(b []byte, n int) int {
	if n > len(b) {
		n = len(b)
	}
	if left := len(c.In) - c.inPos; n > left {
		n = left
	}
	copy(b, c.In[c.inPos:c.inPos+n])
	c.inPos += n
	c.Handed += n
	if c.Handed > c.MaxHanded {
		c.MaxHanded = c.Handed
	}
	return n
}

// Read implements net.Conn.
func (c *Conn) Read(b []byte) (int, error) {
	c.Reads++
	if c.closed {
		return 0, net.ErrClosed
	}
	if len(b) == 0 {
		return 0, nil
	}
	for {
		if c.segOn {
			if c.seg > 0 && c.inPos < len(c.In) {
				n := c.hand(b, c.seg)
				c.seg -= n
				if c.seg == 0 || c.inPos == len(c.In) {
					c.segOn = false
					if c.segEnd != nil {
						c.rEnd, c.segEnd = c.segEnd, nil
						return n, c.rEnd
					}
				}
				return n, nil
			}
			c.segOn = false
			if c.segEnd != nil {
				c.rEnd, c.segEnd = c.segEnd, nil
			}
		}
		if c.rEnd != nil {
			return 0, c.rEnd
		}
		if c.rIdx >= len(c.RPlan) {
			if c.inPos < len(c.In) {
				c.seg, c.segOn = len(c.In)-c.inPos, true
				continue
			}
			c.rEnd = io.EOF
			continue
		}
		a := c.RPlan[c.rIdx]
		c.rIdx++
		left := len(c.In) - c.inPos
		n := a.N
		if n <= 0 || n > left {
			n = left
		}
		switch a.K {
		case 'd':
			if a.N <= 0 {
				n = left
			}
			if n == 0 {
				continue // nothing to deliver: the step is void
			}
			c.seg, c.segOn = n, true
		case 't':
			c.TimeoutsServed++
			return 0, ErrTimeout
		case 'T':
			if a.N <= 0 {
				n = 0
			}
			m := c.hand(b, n)
			if n-m > 0 {
				c.seg, c.segOn = n-m, true
			}
			c.TimeoutsServed++
			return m, ErrTimeout
		case 'e':
			c.rEnd = io.EOF
		case 'x':
			c.rEnd = ErrHard
		case 'E', 'X':
			if a.N <= 0 {
				n = 0
			}
			end := io.EOF
			if a.K == 'X' {
				end = ErrHard
			}
			if n == 0 {
				c.rEnd = end
				continue
			}
			// the terminal answer accompanies the last byte of the segment
			c.seg, c.segOn, c.segEnd = n, true, end
		default:
			panic("pconn: bad read step " + string(a.K))
		}
	}
}

// Write implements net.Conn.
func (c *Conn) Write(b []byte) (int, error) {
	idx := c.Writes
	c.Writes++
	c.WriteLens = append(c.WriteLens, len(b))
	if c.closed {
		return 0, net.ErrClosed
	}
	if c.wEnd != nil {
		return 0, c.wEnd
	}
	a := Act{K: 'a'}
	if c.wIdx < len(c.WPlan) {
		a = c.WPlan[c.wIdx]
		c.wIdx++
	}
	if a.K == 'a' || len(b) == 0 {
		c.Out = append(c.Out, b...)
		return len(b), nil
	}
	n := a.N
	if n < 0 {
		n = 0
	}
	if n > len(b)-1 {
		n = len(b) - 1
	}
	c.Out = append(c.Out, b[:n]...)
	c.WriteFault = append(c.WriteFault, idx)
	switch a.K {
	case 's':
		c.TimeoutsServed++
		return n, ErrTimeout
	case 'c':
		if c.HardWriteAt < 0 {
			c.HardWriteAt = idx
		}
		if c.OnCancel != nil {
			c.OnCancel()
		}
		c.TimeoutsServed++
		return n, ErrTimeout
	case 'x':
		if c.HardWriteAt < 0 {
			c.HardWriteAt = idx
		}
		c.wEnd = ErrHard
		return n, ErrHard
	}
	panic("pconn: bad write step " + string(a.K))
}

// Close implements net.Conn.
func (c *Conn) Close() error {
	if c.closed {
		return net.ErrClosed
	}
	c.closed = true
	return nil
}

func (c *Conn) LocalAddr() net.Addr  { return addr{} }
func (c *Conn) RemoteAddr() net.Addr { return addr{} }

// The deadline setters are recorded no-ops: time never passes here.
func (c *Conn) SetDeadline(time.Time) error      { c.Deadlines++; return nil }
func (c *Conn) SetReadDeadline(time.Time) error  { c.Deadlines++; return nil }
func (c *Conn) SetWriteDeadline(time.Time) error { c.Deadlines++; return nil }

// ReadOutcome describes statically what a read plan does to a stream of n
// bytes when the reader keeps reading: how many bytes are handed out in all
// before the terminal answer, and the features of the plan (for signatures).
type ReadOutcome struct {
	Delivered int  // bytes handed out in all (including those that accompany the terminal answer)
	WithEnd   int  // of these, the bytes handed out together with the terminal answer (E/X)
	Cut       bool // terminal answer arrives before the whole stream was handed out
	HardEnd   bool // the terminal answer is the hard error (else io.EOF)
	Segments  int  // number of data-bearing steps (after merging with the default)
	Stalls    int  // 't' steps that take effect
	DataTO    int  // 'T' steps that hand out at least one byte
	DataEOF   bool // terminal io.EOF arrives together with data
	DataHard  bool // terminal hard error arrives together with data
}

// Outcome evaluates the plan symbolically against a stream of n bytes.
func (p Plan) Outcome(n int) ReadOutcome {
	var o ReadOutcome
	pos := 0
	for _, a := range p {
		left := n - pos
		k := a.N
		if k <= 0 || k > left {
			k = left
		}
		switch a.K {
		case 'd':
			if a.N <= 0 {
				k = left
			}
			if k > 0 {
				pos += k
				o.Segments++
			}
		case 't':
			o.Stalls++
		case 'T':
			if a.N <= 0 {
				k = 0
			}
			if k > 0 {
				pos += k
				o.Segments++
				o.DataTO++
			} else {
				o.Stalls++
			}
		case 'e', 'x', 'E', 'X':
			if a.K == 'e' || a.K == 'x' || a.N <= 0 {
				k = 0
			}
			pos += k
			o.WithEnd = k
			if k > 0 {
				o.Segments++
				if a.K == 'E' {
					o.DataEOF = true
				} else {
					o.DataHard = true
				}
			}
			o.HardEnd = a.K == 'x' || a.K == 'X'
			o.Delivered = pos
			o.Cut = pos < n
			return o
		}
	}
	if pos < n {
		o.Segments++
	}
	o.Delivered = n
	return o
}
