package pconn

// ForEachCuts calls fn with every strictly increasing k-tuple of cut points
// 0 < c1 < ... < ck < n (k cut points split a stream of n bytes into k+1
// non-empty segments). When first > 0 only tuples with c1 == first are
// produced (used to shard the enumeration). The slice is reused.
func ForEachCuts(n, k, first int, fn func(cuts []int)) {
	if k == 0 {
		if first <= 0 {
			fn(nil)
		}
		return
	}
	cuts := make([]int, k)
	var rec func(i, lo int)
	rec = func(i, lo int) {
		if i == k {
			fn(cuts)
			return
		}
		for c := lo; c <= n-1-(k-1-i); c++ {
			cuts[i] = c
			rec(i+1, c+1)
		}
	}
	if first > 0 {
		if first > n-1-(k-1) {
			return
		}
		cuts[0] = first
		rec(1, first+1)
		return
	}
	rec(0, 1)
}

// SegmentsPlan appends to dst the read plan that delivers a stream of n bytes
// in the segments given by cuts (then the default: io.EOF).
func SegmentsPlan(dst Plan, n int, cuts []int) Plan {
	prev := 0
	for _, c := range cuts {
		dst = append(dst, Act{'d', c - prev})
		prev = c
	}
	return append(dst, Act{'d', n - prev})
}

// Binomial returns C(n,k) for small arguments (plan counting).
func Binomial(n, k int) int64 {
	if k < 0 || k > n {
		return 0
	}
	r := int64(1)
	for i := 1; i <= k; i++ {
		r = r * int64(n-k+i) / int64(i)
	}
	return r
}
