package main

import (
	"context"
	"fmt"
	"io"
	"log"
	"time"

	lime "github.com/takenet/lime-go"
	"verif/seqx/sx"
)

// pingRoundTrips checks the last clause of C11: the built-in ping auto-reply is
// a correctly correlated, decodable success response. Both directions, through
// real endpoints over the in-process transport: a Client's ProcessCommand
// against ServerBuilder.AutoReplyPings, and a server channel's ProcessCommand
// against ClientBuilder.AutoReplyPings. (One deterministic round trip each;
// the schedules of command matching are C05's subject.)
func pingRoundTrips(r *sx.Report) {
	log.SetOutput(io.Discard)
	addr := lime.InProcessAddr("c11-ping")
	estab := make(chan *lime.ServerChannel, 1)
	srv := lime.NewServerBuilder().
		ListenInProcess(addr).
		EnableGuestAuthentication().
		AutoReplyPings().
		Established(func(id string, c *lime.ServerChannel) { estab <- c }).
		Build()
	go func() { _ = srv.ListenAndServe() }()
	defer srv.Close()
	var client *lime.Client
	for i := 0; i < 6000 && client == nil; i++ { // up to 30s on a very loaded machine
		if _, err := lime.DialInProcess(addr, 1); err == nil {
			client = lime.NewClientBuilder().UseInProcess(addr, 1).AutoReplyPings().Build()
		} else {
			time.Sleep(5 * time.Millisecond)
		}
	}
	if client == nil {
		r.Fail("ping:setup", "in-process server did not come up", "ping")
		return
	}
	defer client.Close()
	ctx, cancel := context.WithTimeout(context.Background(), 120*time.Second)
	defer cancel()
	check := func(dir string, resp *lime.ResponseCommand, err error, id string) {
		r.Eval("ping/"+dir, true)
		in := map[string]string{"case": "ping auto-reply", "direction": dir}
		switch {
		case err != nil:
			r.Fail("ping:"+dir+":no-reply", fmt.Sprintf("ProcessCommand(get /ping) against AutoReplyPings returned %v", err), in)
		case resp.ID != id || resp.Method != lime.CommandMethodGet || resp.Status != lime.CommandStatusSuccess:
			r.Fail("ping:"+dir+":correlation", fmt.Sprintf("ping reply id=%q method=%q status=%q, want id=%q get success", resp.ID, resp.Method, resp.Status, id), in)
		default:
			if _, ok := resp.Resource.(*lime.Ping); !ok || resp.Type == nil || *resp.Type != lime.MediaTypePing() {
				r.Fail("ping:"+dir+":resource", fmt.Sprintf("ping reply resource %T type %v, want *lime.Ping %v", resp.Resource, resp.Type, lime.MediaTypePing()), in)
			}
		}
	}
	req := &lime.RequestCommand{}
	req.ID = "ping-1"
	req.Method = lime.CommandMethodGet
	req.SetURIString("/ping")
	resp, err := client.ProcessCommand(ctx, req)
	check("client-to-server", resp, err, "ping-1")
	// an addressed ping: the reply goes to the request's sender and names the request's
	// destination - exactly as it was written - as its origin
	req3 := &lime.RequestCommand{}
	req3.ID = "ping-3"
	req3.Method = lime.CommandMethodGet
	req3.SetURIString("/ping")
	req3.From = lime.Node{Identity: lime.Identity{Name: "someone", Domain: "elsewhere.test"}, Instance: "x"}
	req3.To = lime.Node{Identity: lime.Identity{Name: "postmaster", Domain: "srv.test"}} // no instance
	resp3, err3 := client.ProcessCommand(ctx, req3)
	check("client-to-server/addressed", resp3, err3, "ping-3")
	if err3 == nil && resp3 != nil && (resp3.From != req3.To || resp3.To != req3.From) {
		r.Fail("ping:client-to-server:addressing", fmt.Sprintf("ping %v -> %v was answered from %v to %v", req3.From, req3.To, resp3.From, resp3.To), map[string]string{"case": "ping auto-reply", "direction": "client-to-server/addressed"})
	}
	select {
	case sc := <-estab:
		req2 := &lime.RequestCommand{}
		req2.ID = "ping-2"
		req2.Method = lime.CommandMethodGet
		req2.SetURIString("/ping")
		resp2, err2 := sc.ProcessCommand(ctx, req2)
		check("server-to-client", resp2, err2, "ping-2")
	case <-ctx.Done():
		r.Fail("ping:setup", "Established callback never fired", "ping")
	}
}
