// C11 — replies built from an envelope are correctly correlated and addressed.
//
// Enumerated (exhaustively, deterministically):
//
//	Sender(): every from x pp x to combination of the base grammar (6^3);
//	requests: id (3) x from x pp x to (6^3, so present/absent in all 8
//	  combinations and more) x metadata x all 7 methods, uri /p, and the ping
//	  request (get /ping); for each: SuccessResponse, FailureResponse x reason
//	  {nil, full, empty}, SuccessResponseWithResource x {text, Ping};
//	  SuccessResponseWithResource x EVERY document of codec.Docs(depth) (depth 2
//	  quick / 3 thorough) on the pairwise base array x all methods;
//	messages: id x from x pp x to x metadata; Notification x 5 events,
//	  FailedNotification x reason {nil, full, empty}.
//
// Oracle = the statement, clause by clause, on the stated fields only:
//
//	responses: id and method copied; to == pp if present else from; from ==
//	  request's to; status as built; reason as given; resource as given and
//	  resource TYPE == resource.MediaType(); the reply marshals, and both the
//	  typed decoder and the real TCP transport receive path give back a
//	  ResponseCommand with the same stated fields;
//	notifications: id copied; event as requested; reason as given (failed);
//	  to == message's sender; marshals and decodes back with these fields.
//
// A wrong `to` that merely repeats what a wrong Envelope.Sender() returned is
// reported once, under sender:*; a wire failure that merely follows from a built
// reply that already violates a field clause is reported under that clause only.
package main

import (
	"fmt"
	"sort"
	"sync"
	"sync/atomic"

	lime "github.com/takenet/lime-go"

	"verif/seqx/codec"
	"verif/seqx/sx"
)

// Input identifies one case by indices into the grammar (replayable).
type Input struct {
	Builder string `json:"builder"` // sender | success | failure | success-with-resource | notification | failed-notification
	Base    [5]int `json:"base"`    // id, from, pp, to, metadata
	Method  int    `json:"method"`
	Ping    bool   `json:"ping,omitempty"`
	Reason  int    `json:"reason"`
	Event   int    `json:"event"`
	Depth   int    `json:"depth,omitempty"`
	Doc     int    `json:"doc"`
	Note    string `json:"note,omitempty"` // informational: the request and the built reply
}

func (in Input) weight() string {
	return fmt.Sprintf("%v|%d|%d|%d|%04d|%v", in.Base, in.Method, in.Reason, in.Event, in.Doc, in.Ping)
}

// view is the set of fields the statement speaks about.
type view struct {
	Kind     string
	ID       string
	From, To lime.Node
	Method   lime.CommandMethod
	Status   lime.CommandStatus
	Event    lime.NotificationEvent
	Reason   *lime.Reason
	Resource lime.Document
	Type     string // text of the resource type; "" when there is no resource
}

func viewOf(v interface{}, withFrom bool) view {
	switch e := v.(type) {
	case *lime.ResponseCommand:
		w := view{Kind: "ResponseCommand", ID: e.ID, From: e.From, To: e.To, Method: e.Method, Status: e.Status, Reason: e.Reason, Resource: e.Resource}
		if e.Resource != nil {
			w.Type = "<nil>"
			if e.Type != nil {
				w.Type = e.Type.String()
			}
		}
		return w
	case *lime.Notification:
		w := view{Kind: "Notification", ID: e.ID, To: e.To, Event: e.Event, Reason: e.Reason}
		if withFrom {
			w.From = e.From
		}
		return w
	}
	return view{Kind: codec.KindOf(v)}
}

func expectedSender(e lime.Envelope) lime.Node {
	if e.PP != (lime.Node{}) {
		return e.PP
	}
	return e.From
}

func ppClass(e lime.Envelope) string {
	if e.PP != (lime.Node{}) {
		return "pp-present"
	}
	return "pp-absent"
}

type fails [][2]string

// checkReply compares a built reply with what the statement requires (want)
// and sends it over the wire. name is the builder name (signature prefix).
func checkReply(name string, src lime.Envelope, built interface{}, want view) (fs fails) {
	fail := func(sig, msg string) { fs = append(fs, [2]string{name + ":" + sig, msg}) }
	got := viewOf(built, false)
	senderOK := src.Sender() == expectedSender(src)
	if got.Kind != want.Kind {
		fail("kind", "built a "+got.Kind)
		return
	}
	if got.ID != want.ID {
		fail("id", fmt.Sprintf("reply id %q, want the source id %q", got.ID, want.ID))
	}
	if got.To != want.To {
		if !senderOK && got.To == src.Sender() {
			// consequence of the wrong Sender(), reported under sender:*
		} else {
			fail("to:"+ppClass(src), fmt.Sprintf("reply to %q, want the source's sender %q (from %q, pp %q)", got.To, want.To, src.From, src.PP))
		}
	}
	if want.Kind == "ResponseCommand" {
		if got.From != want.From {
			fail("from", fmt.Sprintf("reply from %q, want the request's to %q", got.From, want.From))
		}
		if got.Method != want.Method {
			fail("method", fmt.Sprintf("reply method %q, want %q", got.Method, want.Method))
		}
		if got.Status != want.Status {
			fail("status", fmt.Sprintf("reply status %q, want %q", got.Status, want.Status))
		}
	} else if got.Event != want.Event {
		fail("event", fmt.Sprintf("notification event %q, want %q", got.Event, want.Event))
	}
	if d := codec.Diff(codec.Canon(want.Reason), codec.Canon(got.Reason)); d != "" {
		fail("reason", fmt.Sprintf("reply reason %v, want %v", got.Reason, want.Reason))
	}
	if d := codec.Diff(codec.Canon(&want.Resource), codec.Canon(&got.Resource)); d != "" {
		fail("resource", "reply resource differs from the one given at "+d)
	}
	if want.Resource != nil && got.Resource != nil && got.Type != want.Type {
		if got.Type == "<nil>" {
			fail("type-missing", fmt.Sprintf("reply carries the resource but no resource type (want %s)", want.Type))
		} else {
			fail("type-wrong", fmt.Sprintf("reply resource type %s, want %s", got.Type, want.Type))
		}
	}
	if len(fs) > 0 {
		return // the built reply is already wrong; what the wire does to it adds nothing
	}
	// wire round trip: compare what arrives with what was built (stated fields)
	wire := func(path string, dec interface{}, err error, pan string) {
		switch {
		case pan != "":
			fail("wire-"+path+"-panic", "decoding the built reply panicked: "+pan)
		case err != nil:
			fail("wire-"+path+"-rejected", "the built reply does not decode: "+err.Error())
		default:
			w := viewOf(dec, true)
			g := viewOf(built, true)
			if d := codec.Diff(codec.Canon(g), codec.Canon(w)); d != "" {
				fail("wire-"+path+"-differs:"+d, "the built reply arrives different at "+d)
			}
		}
	}
	b, err, pan := codec.Marshal(built)
	if pan != "" || err != nil {
		fail("marshal", fmt.Sprintf("the built reply does not marshal: %v %s", err, pan))
		return
	}
	td := codec.DecodeTyped(want.Kind, b)
	wire("typed", td.Env, td.Err, td.Panic)
	rc := codec.Receive(append(b, '\n'), 2)
	var first interface{}
	if len(rc.Envs) == 1 {
		first, rc.Err = rc.Envs[0], nil
	} else if len(rc.Envs) > 1 {
		rc.Err = fmt.Errorf("received as %d envelopes", len(rc.Envs))
	}
	wire("transport", first, rc.Err, rc.Panic)
	// the same reply as one text message through the real WebSocket transport
	rw := codec.ReceiveWS([][]byte{b[:len(b):len(b)]}, 2)
	first = nil
	if len(rw.Envs) == 1 {
		first, rw.Err = rw.Envs[0], nil
	} else if len(rw.Envs) > 1 {
		rw.Err = fmt.Errorf("received as %d envelopes", len(rw.Envs))
	}
	wire("ws-transport", first, rw.Err, rw.Panic)
	return
}

var docsCache = map[int][]codec.Doc{}

func docs(depth int) []codec.Doc {
	if d, ok := docsCache[depth]; ok {
		return d
	}
	var out []codec.Doc
	for _, d := range codec.Docs(depth) {
		if d.T == d.D.MediaType() { // the builder derives the type from the document
			out = append(out, d)
		}
	}
	docsCache[depth] = out
	return out
}

// runCase builds and checks one case; it returns the failures, a canonical
// key and a short note (request -> reply).
func runCase(in Input) (fs fails, key, note string) {
	b := codec.MkBase(in.Base[0], in.Base[1], in.Base[2], in.Base[3], in.Base[4]).Env
	key = fmt.Sprintf("%s|%v|%d|%v|%d|%d|%d|%d", in.Builder, in.Base, in.Method, in.Ping, in.Reason, in.Event, in.Depth, in.Doc)
	switch in.Builder {
	case "sender":
		if got, want := b.Sender(), expectedSender(b); got != want {
			fs = append(fs, [2]string{"sender:" + ppClass(b), fmt.Sprintf("Sender() = %q for from %q pp %q, want %q", got, b.From, b.PP, want)})
		}
		return
	case "success", "failure", "success-with-resource":
		req := &lime.RequestCommand{Command: lime.Command{Envelope: b, Method: codec.Methods[in.Method]}}
		uri := "/p"
		if in.Ping {
			uri = "/ping"
		}
		req.SetURIString(uri)
		want := view{Kind: "ResponseCommand", ID: b.ID, From: b.To, To: expectedSender(b), Method: req.Method, Status: lime.CommandStatusSuccess}
		var built *lime.ResponseCommand
		switch in.Builder {
		case "success":
			built = req.SuccessResponse()
		case "failure":
			want.Status, want.Reason = lime.CommandStatusFailure, codec.Reasons[in.Reason]
			built = req.FailureResponse(codec.Reasons[in.Reason])
		default:
			d := docs(in.Depth)[in.Doc]
			want.Resource, want.Type = d.D, d.D.MediaType().String()
			built = req.SuccessResponseWithResource(d.D)
		}
		fs = checkReply(in.Builder, b, built, want)
		rb, _, _ := codec.Marshal(req)
		bb, _, _ := codec.Marshal(built)
		note = string(rb) + " -> " + string(bb)
	case "notification", "failed-notification":
		msg := &lime.Message{Envelope: b}
		msg.SetContent(lime.TextDocument("x"))
		want := view{Kind: "Notification", ID: b.ID, To: expectedSender(b)}
		var built *lime.Notification
		if in.Builder == "notification" {
			want.Event = codec.Events[in.Event]
			built = msg.Notification(codec.Events[in.Event])
		} else {
			want.Event, want.Reason = lime.NotificationEventFailed, codec.Reasons[in.Reason]
			built = msg.FailedNotification(codec.Reasons[in.Reason])
		}
		fs = checkReply(in.Builder, b, built, want)
		rb, _, _ := codec.Marshal(msg)
		bb, _, _ := codec.Marshal(built)
		note = string(rb) + " -> " + string(bb)
	}
	return
}

func main() {
	r := sx.New("C11", "exploration",
		"every generated (source envelope, builder, argument) case is non-trivial; distinct by case identity",
		[]string{"the ping auto-reply is exercised by one real round trip per direction (Client/Server over the in-process transport, default schedule); schedules of command matching are C05's subject",
			"transport path = real tcpTransport.Receive over a passive in-memory net.Conn",
			"only the fields the statement names are compared (reply pp / metadata, notification from are not constrained)"})
	var rin Input
	if _, ok := r.ReplayInput(&rin); ok {
		fs, _, note := runCase(rin)
		fmt.Println("replay:", rin.Builder, note)
		rin.Note = note
		for _, f := range fs {
			r.Fail(f[0], f[1], rin)
		}
		r.Finish()
	}
	depth := 2
	if r.Thorough() {
		depth = 3
	}
	ds := docs(depth)
	pingDoc, textDoc := -1, -1
	for i, d := range ds {
		if _, ok := d.D.(*lime.Ping); ok && pingDoc < 0 {
			pingDoc = i
		}
		if _, ok := d.D.(lime.TextDocument); ok && textDoc < 0 {
			textDoc = i
		}
	}

	// ---- enumerate the cases, simplest first ----
	var cases []Input
	full, pw := codec.BasesFull(), codec.BasesPairwise()
	for _, b := range full {
		if b.Ix[0] == 0 && b.Ix[4] == 0 {
			cases = append(cases, Input{Builder: "sender", Base: b.Ix})
		}
	}
	for _, b := range full {
		for m := range codec.Methods {
			cases = append(cases, Input{Builder: "success", Base: b.Ix, Method: m})
			for _, ri := range []int{0, 1, 4} {
				cases = append(cases, Input{Builder: "failure", Base: b.Ix, Method: m, Reason: ri})
			}
			cases = append(cases, Input{Builder: "success-with-resource", Base: b.Ix, Method: m, Depth: depth, Doc: textDoc})
			cases = append(cases, Input{Builder: "success-with-resource", Base: b.Ix, Method: m, Depth: depth, Doc: pingDoc})
		}
		// the ping request itself
		cases = append(cases, Input{Builder: "success-with-resource", Base: b.Ix, Method: 0, Ping: true, Depth: depth, Doc: pingDoc})
		for e := range codec.Events {
			cases = append(cases, Input{Builder: "notification", Base: b.Ix, Event: e})
		}
		for _, ri := range []int{0, 1, 4} {
			cases = append(cases, Input{Builder: "failed-notification", Base: b.Ix, Reason: ri})
		}
	}
	for _, b := range pw {
		for m := range codec.Methods {
			for di := range ds {
				cases = append(cases, Input{Builder: "success-with-resource", Base: b.Ix, Method: m, Depth: depth, Doc: di})
			}
		}
	}

	type found struct {
		msg string
		in  Input
	}
	var mu sync.Mutex
	best := map[string]found{}
	perBuilder := map[string]int64{}
	var next, capped int64
	var wg sync.WaitGroup
	for w := 0; w < r.Workers; w++ {
		wg.Add(1)
		go func() {
			defer wg.Done()
			local := map[string]int64{}
			defer func() {
				mu.Lock()
				for k, v := range local {
					perBuilder[k] += v
				}
				mu.Unlock()
			}()
			for {
				i := int(atomic.AddInt64(&next, 1)) - 1
				if i >= len(cases) {
					return
				}
				if r.Expired() {
					atomic.StoreInt64(&capped, 1)
					return
				}
				in := cases[i]
				fs, key, note := runCase(in)
				r.Eval(key, true)
				local[in.Builder]++
				if i%40009 == 7 {
					r.Sample(map[string]interface{}{"builder": in.Builder, "case": note})
				}
				if len(fs) > 0 {
					in.Note = note
					mu.Lock()
					for _, f := range fs {
						if old, ok := best[f[0]]; !ok || in.weight() < old.in.weight() {
							best[f[0]] = found{f[1], in}
						}
					}
					mu.Unlock()
				}
			}
		}()
	}
	wg.Wait()
	if capped != 0 {
		r.NotExhaustive("internal budget reached before all cases were evaluated")
	}
	var sigs []string
	for s := range best {
		sigs = append(sigs, s)
	}
	sort.Strings(sigs)
	for _, s := range sigs {
		r.Fail(s, best[s].msg, best[s].in)
	}
	r.Set("per_builder", perBuilder)
	r.Set("resource_documents", len(ds))
	r.Set("resource_depth", depth)
	r.Set("bases_full", len(full))
	r.Set("bases_pairwise", len(pw))
	r.Set("methods", len(codec.Methods))
	pingRoundTrips(r)
	r.Finish()
}
