// C02 — decoding untrusted bytes never panics and is stable under re-encoding.
//
// Enumerated (structural enumeration, no random fuzzing):
//
//	seeds: the C01 depth-2 corpus reduced to representatives of each
//	  (kind, field-set, document-kind-path) class, encoded on a base with id,
//	  from and metadata (the first seed of each kind on the full base);
//	for every seed: EVERY single point mutation at EVERY JSON node
//	  (codec.Mutations: delete, each value of the replacement list — null, every
//	  JSON type, lime-meaningful strings —, add each missing known/alien key,
//	  duplicate / re-spelt key, swap of any two children, cross-level swap),
//	  every truncation prefix;
//	ordered PAIRS of mutations (first: full list, second: reduced list) on the
//	  100 smallest seeds (thorough: 320 smallest of ~500 — see `pair_seeds`;
//	  byte-identical repeats within a seed are evaluated once);
//	concatenations of two seeds with separators "", "\n", "," (quick: 60
//	  smallest seeds; thorough: all);
//	the fixed list codec.Lexical (BOM, lone surrogates, 1e400, nesting 10^4,
//	  64 KiB strings, degenerate media types / URIs ...).
//
// Every byte string goes to the five typed decoders and to the real
// tcpTransport.Receive over a passive connection.
//
// Oracle: (a) no call panics (each under recover); (b) whatever a path accepts
// re-encodes (json.Marshal succeeds) and decoding that encoding through the
// SAME path yields an envelope of the same kind, canonically equal.
package main

import (
	"crypto/sha256"
	"encoding/base64"
	"encoding/hex"
	"flag"
	"fmt"
	"os"
	"runtime/debug"
	"sort"
	"strconv"
	"strings"
	"sync"
	"sync/atomic"
	"unicode/utf8"

	"verif/seqx/codec"
	"verif/seqx/sx"
)

// Input is what a replay file stores: the bytes (text when valid UTF-8, always
// base64) and how they were derived.
type Input struct {
	Desc string `json:"desc"`
	Text string `json:"text,omitempty"`
	B64  string `json:"b64"`
}

func mkInput(desc string, b []byte) Input {
	in := Input{Desc: desc, B64: base64.StdEncoding.EncodeToString(b)}
	if utf8.Valid(b) && len(b) < 4096 {
		in.Text = string(b)
	}
	return in
}

type failure struct {
	sig, msg string
	in       Input
	n        int
}

// collector keeps the smallest input per signature (shortest, then
// lexicographic), so reports do not depend on worker scheduling.
type collector struct {
	mu sync.Mutex
	m  map[string]failure
}

func (c *collector) add(sig, msg, desc string, b []byte) {
	c.mu.Lock()
	old, ok := c.m[sig]
	if !ok || len(b) < old.n || (len(b) == old.n && base64.StdEncoding.EncodeToString(b) < old.in.B64) {
		c.m[sig] = failure{sig, msg, mkInput(desc, b), len(b)}
	}
	c.mu.Unlock()
}

// short makes an error text into a signature component: quoted / value parts
// are cut so that the class, not the instance, remains.
func short(err error) string {
	s := err.Error()
	s = strings.TrimPrefix(s, "tcp transport: receive: ")
	s = strings.TrimPrefix(s, "ws transport: receive: ") // one root cause, one signature, whichever transport met it
	for { // keep the innermost "X for type T: cause" of nested marshalling errors
		i := strings.Index(s, "json: error calling ")
		if i < 0 {
			break
		}
		s = s[i+len("json: error calling "):]
	}
	if i := strings.IndexAny(s, "'\""); i >= 0 {
		s = s[:i]
	}
	if len(s) > 90 {
		s = s[:90]
	}
	return strings.ReplaceAll(strings.ReplaceAll(strings.TrimSpace(s), ": ", ":"), " ", "-")
}

// evaluate applies the oracle to one input; it reports whether the input was
// non-trivial (accepted by some path, or panicked).
func evaluate(x []byte, fail func(sig, msg string)) (nontrivial bool) {
	for _, kind := range codec.Kinds {
		td := codec.DecodeTyped(kind, x)
		if td.Panic != "" {
			nontrivial = true
			fail("decode-panic:"+td.Site, fmt.Sprintf("json.Unmarshal into *lime.%s panicked: %s", kind, td.Panic))
			continue
		}
		if td.Err != nil {
			continue
		}
		nontrivial = true
		b2, err, pan := codec.Marshal(td.Env)
		if pan != "" {
			fail("reencode-panic:"+kind, fmt.Sprintf("json.Marshal of the accepted %s panicked: %s", kind, pan))
			continue
		}
		if err != nil {
			fail("reencode-error:"+short(err), fmt.Sprintf("the typed decoder accepted a %s that cannot be encoded again: %v", kind, err))
			continue
		}
		td2 := codec.DecodeTyped(kind, b2)
		switch {
		case td2.Panic != "":
			fail("decode-panic:"+td2.Site, fmt.Sprintf("json.Unmarshal of the re-encoding into *lime.%s panicked: %s", kind, td2.Panic))
		case td2.Err != nil:
			fail("reencode-rejected:"+short(td2.Err), fmt.Sprintf("the typed decoder accepted a %s whose re-encoding %s it rejects: %v", kind, clip(b2), td2.Err))
		default:
			if d := codec.Diff(codec.Canon(td.Env), codec.Canon(td2.Env)); d != "" {
				fail("reencode-differs:"+d, fmt.Sprintf("typed %s: decoding the re-encoding %s differs from the accepted envelope at %s", kind, clip(b2), d))
			}
		}
	}
	rc := codec.Receive(x, 8)
	if rc.Panic != "" {
		nontrivial = true
		fail("decode-panic:"+rc.Site, "Transport.Receive panicked: "+rc.Panic)
	}
	for _, e := range rc.Envs {
		nontrivial = true
		kind := codec.KindOf(e)
		b2, err, pan := codec.Marshal(e)
		if pan != "" {
			fail("reencode-panic:"+kind, fmt.Sprintf("json.Marshal of the received %s panicked: %s", kind, pan))
			continue
		}
		if err != nil {
			fail("reencode-error:"+short(err), fmt.Sprintf("the transport accepted a %s that cannot be encoded again: %v", kind, err))
			continue
		}
		rc2 := codec.Receive(append(b2, '\n'), 2)
		switch {
		case rc2.Panic != "":
			fail("decode-panic:"+rc2.Site, "Transport.Receive of a re-encoding panicked: "+rc2.Panic)
		case len(rc2.Envs) == 0:
			fail("reencode-rejected:"+short(rc2.Err), fmt.Sprintf("the transport accepted a %s whose re-encoding %s it rejects: %v", kind, clip(b2), rc2.Err))
		case len(rc2.Envs) > 1:
			fail("reencode-split", "the re-encoding of one received envelope is received as several")
		default:
			if k2 := codec.KindOf(rc2.Envs[0]); k2 != kind {
				fail("reencode-kind:"+kind+"->"+k2, fmt.Sprintf("a received %s re-encodes to %s which is received as a %s", kind, clip(b2), k2))
			} else if d := codec.Diff(codec.Canon(e), codec.Canon(rc2.Envs[0])); d != "" {
				fail("reencode-differs:"+d, fmt.Sprintf("transport %s: receiving the re-encoding %s differs from the accepted envelope at %s", kind, clip(b2), d))
			}
		}
	}
	// the same bytes as ONE text message to the real WebSocket transport
	rw := codec.ReceiveWS([][]byte{x}, 2)
	if rw.Panic != "" {
		nontrivial = true
		fail("decode-panic:"+rw.Site, "websocket Transport.Receive panicked: "+rw.Panic)
	}
	if len(rw.Envs) > 1 {
		fail("ws-split", "the websocket transport returned more envelopes than messages")
	}
	for _, e := range rw.Envs[:min(1, len(rw.Envs))] {
		nontrivial = true
		kind := codec.KindOf(e)
		b2, err, pan := codec.Marshal(e)
		if pan != "" {
			fail("reencode-panic:"+kind, fmt.Sprintf("json.Marshal of the %s received over websocket panicked: %s", kind, pan))
			continue
		}
		if err != nil {
			fail("reencode-error:"+short(err), fmt.Sprintf("the websocket transport accepted a %s that cannot be encoded again: %v", kind, err))
			continue
		}
		rw2 := codec.ReceiveWS([][]byte{b2}, 2)
		switch {
		case rw2.Panic != "":
			fail("decode-panic:"+rw2.Site, "websocket Transport.Receive of a re-encoding panicked: "+rw2.Panic)
		case len(rw2.Envs) != 1:
			fail("reencode-rejected:"+short(rw2.Err), fmt.Sprintf("the websocket transport accepted a %s whose re-encoding %s it rejects: %v", kind, clip(b2), rw2.Err))
		default:
			if k2 := codec.KindOf(rw2.Envs[0]); k2 != kind {
				fail("reencode-kind:"+kind+"->"+k2, fmt.Sprintf("a %s received over websocket re-encodes to %s which is received as a %s", kind, clip(b2), k2))
			} else if d := codec.Diff(codec.Canon(e), codec.Canon(rw2.Envs[0])); d != "" {
				fail("reencode-differs:"+d, fmt.Sprintf("websocket %s: receiving the re-encoding %s differs from the accepted envelope at %s", kind, clip(b2), d))
			}
		}
	}
	return
}

func clip(b []byte) string {
	if len(b) > 200 {
		return string(b[:200]) + "..."
	}
	return string(b)
}

type seed struct {
	class string
	enc   []byte
	tree  *codec.JNode
}

// seeds builds the reduced corpus: for every kind, the bodies of codec.Cases
// over the depth-2 documents, keeping per class the first and the last member
// (for the registered struct documents these are the empty and the
// all-fields-set value); Session classes are reduced to state x {no optional
// field} + authentication x {all optional fields} + each single field.
func seeds() []seed {
	cases := codec.Cases(codec.Docs(2))
	first, last := map[string]int{}, map[string]int{}
	var order []string
	for i, c := range cases {
		key := c.Kind + "|" + c.Class
		if c.Kind == "Session" {
			var st, au, bits = "", 0, 0
			fmt.Sscanf(strings.NewReplacer("state=", "", ",auth=", " ", ",fields=", " ").Replace(c.Class), "%s %d %b", &st, &au, &bits)
			single := bits != 0 && bits&(bits-1) == 0
			switch {
			case au == 0 && bits == 0: // every state, bare
			case bits == 127 && st == "authenticating": // every authentication, all fields
			case au == 0 && single && st == "negotiating": // each optional field alone
			default:
				continue
			}
		}
		if _, ok := first[key]; !ok {
			first[key] = i
			order = append(order, key)
		}
		last[key] = i
	}
	medium := codec.MkBase(1, 3, 0, 0, 1).Env
	rich := codec.MkBase(1, 3, 1, 2, 1).Env
	var out []seed
	seenKind, seenEnc := map[string]bool{}, map[string]bool{}
	for _, key := range order {
		for _, i := range []int{first[key], last[key]} {
			c := cases[i]
			b := medium
			if !seenKind[c.Kind] {
				b, seenKind[c.Kind] = rich, true
			}
			enc, err, _ := codec.Marshal(c.Make(b))
			if err != nil || seenEnc[string(enc)] {
				continue
			}
			seenEnc[string(enc)] = true
			t, err := codec.ParseJSON(enc)
			if err != nil {
				panic(err)
			}
			out = append(out, seed{key, enc, t})
		}
	}
	sort.SliceStable(out, func(i, j int) bool { return len(out[i].enc) < len(out[j].enc) })
	return out
}

// seedSet remembers which byte strings derived from one seed were already
// evaluated: ordered pairs of mutations on independent nodes commute, so about
// half of the pair inputs are byte-identical repeats; they are skipped (and not
// counted as evaluations). The set is dropped when the seed is finished.
type seedSet struct {
	shards [64]struct {
		mu sync.Mutex
		m  map[[16]byte]struct{}
	}
}

func (s *seedSet) firstTime(k [16]byte) bool {
	sh := &s.shards[k[0]&63]
	sh.mu.Lock()
	defer sh.mu.Unlock()
	if sh.m == nil {
		sh.m = map[[16]byte]struct{}{}
	}
	if _, ok := sh.m[k]; ok {
		return false
	}
	sh.m[k] = struct{}{}
	return true
}

type job struct {
	seed  int    // index of the seed the input derives from, -1 for none
	desc  string // derivation (mutation path/op); the seed text is added on failure only
	bytes []byte
	tree  *codec.JNode // non-nil: also enumerate second mutations on it
	set   *seedSet     // non-nil: skip inputs already evaluated for this seed
}

func main() {
	pairFlag := flag.Int("pair-seeds", 0, "number of smallest seeds that get ordered mutation pairs (0: tier default)")
	r := sx.New("C02", "exploration",
		"an input is non-trivial when some decoder path accepted it (returned an envelope) or panicked; distinct by input bytes",
		[]string{"byte-level coverage-guided fuzzing (clause b of the quantifier) is a different family and is not used; the structural enumeration is its exhaustive counterpart",
			"transport path = real tcpTransport.Receive over a passive in-memory net.Conn; websocket receive path not driven here (it shares rawEnvelope.toEnvelope)",
			"inputs beyond the stated seeds / mutation lists / pair sets are not covered"})
	col := &collector{m: map[string]failure{}}
	var in Input
	if _, ok := r.ReplayInput(&in); ok {
		b, err := base64.StdEncoding.DecodeString(in.B64)
		if err != nil {
			fmt.Println("TOOL-ERROR: bad replay input:", err)
			os.Exit(2)
		}
		fmt.Printf("replay: %s: %q\n", in.Desc, clip(b))
		evaluate(b, func(sig, msg string) { r.Fail(sig, msg, in) })
		r.Finish()
	}

	sd := seeds()
	pairSeeds, catSeeds := 100, 60
	if r.Thorough() {
		pairSeeds, catSeeds = 320, len(sd)
	}
	if *pairFlag > 0 {
		pairSeeds = *pairFlag
	}
	if pairSeeds > len(sd) {
		pairSeeds = len(sd)
	}
	if catSeeds > len(sd) {
		catSeeds = len(sd)
	}

	var nSingles, nPairs, nTrunc, nCat, nLex, nAccepted, nRepeat, capped int64
	debug.SetGCPercent(400)
	jobs := make(chan job, 1024)
	var wg sync.WaitGroup
	run := func(si int, desc string, b []byte, set *seedSet) {
		h := sha256.Sum256(b)
		var k [16]byte
		copy(k[:], h[:16])
		if set != nil && !set.firstTime(k) {
			atomic.AddInt64(&nRepeat, 1)
			return
		}
		nt := evaluate(b, func(sig, msg string) {
			d := desc
			if si >= 0 {
				d = fmt.Sprintf("seed[%d] %s ; %s", si, sd[si].enc, desc)
			}
			col.add(sig, msg, d, b)
		})
		r.Eval(hex.EncodeToString(k[:]), nt) // key = SHA-256/128 of the input bytes
		if nt {
			if atomic.AddInt64(&nAccepted, 1)%200003 == 1 {
				r.Sample(map[string]string{"desc": desc, "input": clip(b)})
			}
		}
	}
	for w := 0; w < r.Workers; w++ {
		wg.Add(1)
		go func() {
			defer wg.Done()
			for j := range jobs {
				if r.Expired() {
					atomic.StoreInt64(&capped, 1)
					continue // drain
				}
				run(j.seed, j.desc, j.bytes, j.set)
				if j.tree != nil {
					codec.Mutations(j.tree, true, func(d2 string, m *codec.JNode) {
						atomic.AddInt64(&nPairs, 1)
						run(j.seed, j.desc+" ; "+d2, m.Render(), j.set)
					})
				}
			}
		}()
	}
	// producer: simplest first
	lex := codec.Lexical()
	var names []string
	for n := range lex {
		names = append(names, n)
	}
	sort.Strings(names)
	for _, n := range names {
		nLex++
		jobs <- job{seed: -1, desc: "lexical:" + n, bytes: lex[n]}
	}
	for si, s := range sd {
		var set *seedSet
		if si < pairSeeds {
			set = &seedSet{}
		}
		jobs <- job{seed: si, desc: "unmutated " + s.class, bytes: s.enc, set: set}
		codec.Mutations(s.tree, false, func(d string, m *codec.JNode) {
			nSingles++
			j := job{seed: si, desc: d, bytes: m.Render()}
			if si < pairSeeds {
				j.tree, j.set = m, set
			}
			jobs <- j
		})
		for k := 0; k < len(s.enc); k++ {
			nTrunc++
			jobs <- job{seed: si, desc: "truncate " + strconv.Itoa(k), bytes: s.enc[:k]}
		}
	}
	for i := 0; i < catSeeds; i++ {
		for j := 0; j < catSeeds; j++ {
			for _, sep := range []string{"", "\n", ","} {
				nCat++
				b := append(append(append([]byte{}, sd[i].enc...), sep...), sd[j].enc...)
				jobs <- job{seed: -1, desc: fmt.Sprintf("concat seed[%d] %q seed[%d]", i, sep, j), bytes: b}
			}
		}
	}
	close(jobs)
	wg.Wait()

	if capped != 0 {
		r.NotExhaustive("internal budget reached before all mutation pairs were evaluated")
	}
	var sigs []string
	for s := range col.m {
		sigs = append(sigs, s)
	}
	sort.Strings(sigs)
	for _, s := range sigs {
		f := col.m[s]
		r.Fail(f.sig, f.msg, f.in)
	}
	nodes := 0
	for _, s := range sd {
		nodes += s.tree.Count()
	}
	r.Set("seeds", len(sd))
	r.Set("seed_json_nodes", nodes)
	r.Set("pair_seeds", pairSeeds)
	r.Set("concat_seeds", catSeeds)
	r.Set("single_mutations", nSingles)
	r.Set("pair_mutations", nPairs)
	r.Set("pair_mutations_skipped_as_byte_identical_repeats", nRepeat)
	r.Set("truncations", nTrunc)
	r.Set("concatenations", nCat)
	r.Set("lexical_cases", nLex)
	r.Set("decoder_paths", []string{"typed:Message", "typed:Notification", "typed:RequestCommand", "typed:ResponseCommand", "typed:Session", "tcpTransport.Receive"})
	r.Set("replacement_values", len(codec.Replacements))
	r.Finish()
}
