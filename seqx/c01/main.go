// C01 — envelope JSON round-trip preserves kind and content.
//
// Enumerated (exhaustively, deterministically, simplest first):
//
//	envelopes: every body of codec.Cases over codec.Docs(depth) — all 5 kinds,
//	  every enum member, every optional-field subset of Session, every document
//	  kind incl. containers/collections nested to `depth` and all registered
//	  chat types with each field set one at a time — combined with (a) the FULL
//	  base product id x from x pp x to x metadata (1944) for the simplest body of
//	  each kind (thorough: for every body of nesting depth <= 1) and (b) a
//	  pairwise covering array of bases for every other body;
//	text forms: every Identity / Node / MediaType whose components are strings
//	  of length <= L over {a, é, @, /, +, .} minus the separators the grammar
//	  reserves, every URI string "/"+s, s, "/p?"+s, "lime://"+s+"/p" over the
//	  same alphabet that ParseLimeURI accepts, and all enum members.
//
// Bounds: quick depth 2, L 2; thorough depth 3, L 3.
//
// Oracle (nothing beyond the statement): Marshal(v) succeeds; the typed decoder
// and the real TCP transport receive path both return an envelope of the same
// kind that is canonically equal to v (codec.Canon: nil == empty collections,
// pointer == value, numbers as float64). Text forms: Parse(String(x)) == x.
package main

import (
	"fmt"
	"net/url"
	"sort"
	"strings"
	"sync"
	"sync/atomic"

	lime "github.com/takenet/lime-go"

	"verif/seqx/codec"
	"verif/seqx/sx"
)

// Input is what a replay file stores.
type Input struct {
	Phase string   `json:"phase"` // "envelope" | "text"
	Depth int      `json:"depth,omitempty"`
	Case  int      `json:"case,omitempty"`
	Class string   `json:"class,omitempty"`
	Kind  string   `json:"kind,omitempty"`
	Base  [5]int   `json:"base"`
	JSON  string   `json:"json,omitempty"` // informational: the encoding of the value
	Form  string   `json:"form,omitempty"` // text phase: identity | node | mediatype | uri
	Parts []string `json:"parts,omitempty"`
}

type failure struct {
	sig, msg string
	in       Input
}

// collector keeps, per signature, the smallest input (shortest encoding, then
// lexicographic), so the reported input does not depend on worker scheduling.
type collector struct {
	mu sync.Mutex
	m  map[string]failure
}

func weight(in Input) string {
	return fmt.Sprintf("%08d|%s|%v|%s", len(in.JSON)+len(strings.Join(in.Parts, "")), in.JSON, in.Parts, in.Form)
}

func (c *collector) add(f failure) {
	c.mu.Lock()
	if old, ok := c.m[f.sig]; !ok || weight(f.in) < weight(old.in) {
		c.m[f.sig] = f
	}
	c.mu.Unlock()
}

func short(err error) string {
	s := err.Error()
	if i := strings.IndexAny(s, "'\""); i >= 0 {
		s = s[:i]
	}
	if len(s) > 60 {
		s = s[:60]
	}
	return strings.TrimSpace(strings.ReplaceAll(s, " ", "-"))
}

// checkEnvelope applies the oracle to one envelope value v of the given kind.
func checkEnvelope(kind string, v interface{}) (fails [][2]string, enc []byte, fixedPoint bool) {
	fail := func(sig, msg string) { fails = append(fails, [2]string{sig, msg}) }
	want := codec.Canon(v)
	b, err, pan := codec.Marshal(v)
	if pan != "" {
		fail("marshal-panic:"+kind, "json.Marshal panicked: "+pan)
		return
	}
	if err != nil {
		fail("marshal-error:"+short(err), "json.Marshal of a well-formed "+kind+" failed: "+err.Error())
		return
	}
	enc = b
	// (i) typed decoder
	td := codec.DecodeTyped(kind, b)
	switch {
	case td.Panic != "":
		fail("typed-decode-panic:"+td.Site, "typed decoder panicked on the library's own encoding: "+td.Panic)
	case td.Err != nil:
		fail("typed-decode-error:"+short(td.Err), "typed decoder rejected the library's own encoding: "+td.Err.Error())
	default:
		if d := codec.Diff(want, codec.Canon(td.Env)); d != "" {
			fail("typed-roundtrip:"+d, fmt.Sprintf("typed decode of the encoding differs from the original at %s", d))
		}
		if b2, err2, _ := codec.Marshal(td.Env); err2 == nil && string(b2) == string(b) {
			fixedPoint = true
		}
		// (i') the same bytes decoded into a variable that held another envelope before
		if tr := codec.DecodeTypedReused(kind, b); tr.Panic != "" || tr.Err != nil {
			fail("typed-decode-reused-variable:"+kind, fmt.Sprintf("typed decoder fails on a variable that held an earlier envelope: %v %s", tr.Err, tr.Panic))
		} else if d := codec.Diff(want, codec.Canon(tr.Env)); d != "" {
			fail("typed-roundtrip-reused-variable:"+d, fmt.Sprintf("decoded into a variable that held an earlier envelope, the result differs from the original at %s", d))
		}
	}
	// (ii) real TCP transport receive path
	rc := codec.Receive([]byte(string(b)+"\n"+between+"\n"), 3)
	if n := len(rc.Envs); n >= 2 {
		if m, ok := rc.Envs[1].(*lime.Message); !ok || m.ID != "between" || m.Metadata["other"] != "1" {
			fail("transport-between:"+kind, "the envelope received after the encoding is not the one sent")
		}
		rc.Envs = append(rc.Envs[:1], rc.Envs[2:]...)
	}
	switch {
	case rc.Panic != "":
		fail("transport-panic:"+rc.Site, "transport Receive panicked on the library's own encoding: "+rc.Panic)
	case len(rc.Envs) == 0:
		fail("transport-error:"+short(rc.Err), "transport Receive rejected the library's own encoding: "+rc.Err.Error())
	case len(rc.Envs) > 1:
		fail("transport-split:"+kind, "transport Receive returned more than one envelope for one encoding")
	default:
		if k := codec.KindOf(rc.Envs[0]); k != kind {
			fail("transport-kind:"+kind+"->"+k, fmt.Sprintf("transport Receive classified a %s as %s", kind, k))
		} else if d := codec.Diff(want, codec.Canon(rc.Envs[0])); d != "" {
			fail("transport-roundtrip:"+d, fmt.Sprintf("envelope received through the transport differs from the original at %s", d))
		}
	}
	// (iii) real WebSocket transport: Send writes one text frame whose payload the typed decoder and
	// the WebSocket receive path must turn back into the original
	ws, werr, wpan := codec.SendWS(v)
	switch {
	case wpan != "":
		fail("ws-send-panic:"+kind, "websocket transport Send panicked: "+wpan)
	case werr != nil:
		fail("ws-send-error:"+short(werr), "websocket transport Send of a well-formed "+kind+" failed: "+werr.Error())
	case len(ws) != 1:
		fail("ws-send-frames:"+kind, fmt.Sprintf("websocket transport Send wrote %d text frames for one envelope", len(ws)))
	default:
		if td := codec.DecodeTyped(kind, ws[0]); td.Panic != "" || td.Err != nil {
			fail("ws-sent-undecodable:"+kind, fmt.Sprintf("what the websocket transport sent does not decode: %v %s", td.Err, td.Panic))
		} else if d := codec.Diff(want, codec.Canon(td.Env)); d != "" {
			fail("ws-send-roundtrip:"+d, fmt.Sprintf("what the websocket transport sent decodes to something that differs from the original at %s", d))
		}
		// (a different envelope travels between the two copies: what was received earlier must not
		// change when the same transport receives again)
		rw := codec.ReceiveWS([][]byte{ws[0], []byte(between), b}, 4)
		if len(rw.Envs) == 3 {
			if m, ok := rw.Envs[1].(*lime.Message); !ok || m.ID != "between" || m.Metadata["other"] != "1" {
				fail("ws-transport-between:"+kind, "the envelope received between the two copies is not the one sent")
			}
			rw.Envs = append(rw.Envs[:1], rw.Envs[2])
		} else if len(rw.Envs) > 3 {
			rw.Envs = rw.Envs[:3]
		} else if len(rw.Envs) == 2 {
			rw.Envs = rw.Envs[:1]
		}
		switch {
		case rw.Panic != "":
			fail("ws-transport-panic:"+rw.Site, "websocket transport Receive panicked on the library's own encoding: "+rw.Panic)
		case len(rw.Envs) < 2:
			fail("ws-transport-error:"+short(rw.Err), fmt.Sprintf("websocket transport Receive rejected the library's own encoding (message %d of 2): %v", len(rw.Envs)+1, rw.Err))
		case len(rw.Envs) > 2:
			fail("ws-transport-split:"+kind, "websocket transport Receive returned more envelopes than messages")
		default:
			for _, e := range rw.Envs {
				if k := codec.KindOf(e); k != kind {
					fail("ws-transport-kind:"+kind+"->"+k, fmt.Sprintf("websocket transport Receive classified a %s as %s", kind, k))
				} else if d := codec.Diff(want, codec.Canon(e)); d != "" {
					fail("ws-transport-roundtrip:"+d, fmt.Sprintf("envelope received through the websocket transport differs from the original at %s", d))
				}
			}
		}
	}
	return
}

const between = `{"id":"between","from":"x@y.z/w","metadata":{"other":"1"},"type":"text/plain","content":"between"}`

// ---- text forms ----

var alphabet = []string{"a", "é", "@", "/", "+", "."}

// words returns all strings of length minLen..maxLen over the alphabet minus
// the reserved runes, shortest first.
func words(minLen, maxLen int, reserved string) []string {
	var al []string
	for _, c := range alphabet {
		if !strings.Contains(reserved, c) {
			al = append(al, c)
		}
	}
	var out []string
	cur := []string{""}
	if minLen == 0 {
		out = append(out, "")
	}
	for l := 1; l <= maxLen; l++ {
		var next []string
		for _, w := range cur {
			for _, c := range al {
				next = append(next, w+c)
			}
		}
		cur = next
		if l >= minLen {
			out = append(out, next...)
		}
	}
	return out
}

// checkText applies Parse(String(x)) == x to one text-form input.
func checkText(form string, p []string) (sig, msg string) {
	switch form {
	case "identity":
		x := lime.Identity{Name: p[0], Domain: p[1]}
		if y := lime.ParseIdentity(x.String()); y != x {
			return "text:identity", fmt.Sprintf("ParseIdentity(%q) = %#v, want %#v", x.String(), y, x)
		}
		var z lime.Identity
		b, _ := x.MarshalText()
		if err := z.UnmarshalText(b); err != nil || z != x {
			return "text:identity-marshaltext", fmt.Sprintf("UnmarshalText(MarshalText(%#v)) = %#v, %v", x, z, err)
		}
	case "node":
		x := lime.Node{Identity: lime.Identity{Name: p[0], Domain: p[1]}, Instance: p[2]}
		if y := lime.ParseNode(x.String()); y != x {
			return "text:node", fmt.Sprintf("ParseNode(%q) = %#v, want %#v", x.String(), y, x)
		}
		var z lime.Node
		b, _ := x.MarshalText()
		if err := z.UnmarshalText(b); err != nil || z != x {
			return "text:node-marshaltext", fmt.Sprintf("UnmarshalText(MarshalText(%#v)) = %#v, %v", x, z, err)
		}
	case "mediatype":
		x := lime.MediaType{Type: p[0], Subtype: p[1], Suffix: p[2]}
		y, err := lime.ParseMediaType(x.String())
		if err != nil || y != x {
			return "text:mediatype", fmt.Sprintf("ParseMediaType(%q) = %#v, %v; want %#v", x.String(), y, err, x)
		}
		var z lime.MediaType
		b, _ := x.MarshalText()
		if err := z.UnmarshalText(b); err != nil || z != x {
			return "text:mediatype-marshaltext", fmt.Sprintf("UnmarshalText(MarshalText(%#v)) = %#v, %v", x, z, err)
		}
	case "uri":
		u, err := lime.ParseLimeURI(p[0])
		if err != nil {
			return "", "" // not a URI value
		}
		u2, err := lime.ParseLimeURI(u.String())
		if err != nil {
			return "text:uri-reparse-error", fmt.Sprintf("ParseLimeURI(%q).String() = %q does not parse: %v", p[0], u.String(), err)
		}
		if u2.String() != u.String() || u2.Path() != u.Path() || fmt.Sprint(u2.Owner()) != fmt.Sprint(u.Owner()) {
			return "text:uri", fmt.Sprintf("ParseLimeURI(%q): text %q reparses to %q (path %q vs %q)", p[0], u.String(), u2.String(), u.Path(), u2.Path())
		}
		// reference: the same text parsed by net/url directly; the text the type prints and the
		// text it marshals to must denote the same URL (path, query, fragment, owner)
		ref, rerr := url.Parse(p[0])
		if rerr == nil {
			mt, _ := u.MarshalText()
			for _, txt := range []string{u.String(), string(mt)} {
				got, gerr := url.Parse(txt)
				if gerr != nil || got.String() != ref.String() {
					return "text:uri-denotes-other-url", fmt.Sprintf("ParseLimeURI(%q) prints/marshals as %q, which is the URL %v, not %q", p[0], txt, got, ref.String())
				}
			}
		}
		var z lime.URI
		b, _ := u.MarshalText()
		if err := z.UnmarshalText(b); err != nil || z.String() != u.String() {
			return "text:uri-marshaltext", fmt.Sprintf("UnmarshalText(MarshalText(%q)) = %q, %v", u.String(), z.String(), err)
		}
	case "enum":
		// every enum member through its MarshalText/UnmarshalText pair
		for _, m := range codec.Methods {
			var z lime.CommandMethod
			b, err := m.MarshalText()
			if err != nil || z.UnmarshalText(b) != nil || z != m {
				return "text:enum-method", fmt.Sprintf("CommandMethod %q does not round-trip", m)
			}
		}
		for _, m := range codec.Events {
			var z lime.NotificationEvent
			b, err := m.MarshalText()
			if err != nil || z.UnmarshalText(b) != nil || z != m {
				return "text:enum-event", fmt.Sprintf("NotificationEvent %q does not round-trip", m)
			}
		}
		for _, m := range codec.States {
			var z lime.SessionState
			b, err := m.MarshalText()
			if err != nil || z.UnmarshalText(b) != nil || z != m {
				return "text:enum-state", fmt.Sprintf("SessionState %q does not round-trip", m)
			}
		}
	}
	return "", ""
}

func main() {
	r := sx.New("C01", "exploration",
		"every generated value is a well-formed envelope / text-form value and is non-trivial; distinct by canonical form",
		[]string{"values outside the stated grammar/alphabet/depth are not covered",
			"transport path = real tcpTransport.Receive over a passive in-memory net.Conn (server role); websocket receive path not driven here (it shares rawEnvelope.toEnvelope)",
			"encoding/json and net/url trusted"})
	var in Input
	if _, ok := r.ReplayInput(&in); ok {
		replay(r, in)
		r.Finish()
	}
	depth, L := 2, 2
	if r.Thorough() {
		depth, L = 3, 3
	}
	col := &collector{m: map[string]failure{}}

	// ---- envelopes ----
	docs := codec.Docs(depth)
	cases := codec.Cases(docs)
	full, pw := codec.BasesFull(), codec.BasesPairwise()
	firstOfKind := map[string]int{}
	for i, c := range cases {
		if _, ok := firstOfKind[c.Kind]; !ok {
			firstOfKind[c.Kind] = i
		}
	}
	// which cases get the full base product
	useFull := func(i int) bool {
		if firstOfKind[cases[i].Kind] == i {
			return true
		}
		if !r.Thorough() {
			return false
		}
		// thorough: every body that does not nest (documents of depth 1 or none)
		return !strings.Contains(cases[i].Class, "container>") && !strings.Contains(cases[i].Class, "collection>")
	}
	var next, fixedMiss, capped int64
	perKind := map[string]*int64{}
	for _, k := range codec.Kinds {
		perKind[k] = new(int64)
	}
	var wg sync.WaitGroup
	for w := 0; w < r.Workers; w++ {
		wg.Add(1)
		go func() {
			defer wg.Done()
			for {
				i := int(atomic.AddInt64(&next, 1)) - 1
				if i >= len(cases) {
					return
				}
				if r.Expired() {
					atomic.StoreInt64(&capped, 1)
					return
				}
				c := cases[i]
				bases := pw
				if useFull(i) {
					bases = full
				}
				for bi, b := range bases {
					v := c.Make(b.Env)
					fails, enc, fp := checkEnvelope(c.Kind, v)
					r.Eval(codec.Canon(v).String(), true)
					atomic.AddInt64(perKind[c.Kind], 1)
					if !fp {
						atomic.AddInt64(&fixedMiss, 1)
					}
					if i%997 == 0 && bi == 1 {
						r.Sample(map[string]string{"kind": c.Kind, "class": c.Class, "json": string(enc)})
					}
					for _, f := range fails {
						col.add(failure{f[0], f[1], Input{Phase: "envelope", Depth: depth, Case: i, Class: c.Class, Kind: c.Kind, Base: b.Ix, JSON: string(enc)}})
					}
				}
			}
		}()
	}
	wg.Wait()

	// ---- text forms ----
	var nText int64
	text := func(form string, parts ...string) {
		nText++
		r.Eval("text|"+form+"|"+strings.Join(parts, "\x00"), true)
		if sig, msg := checkText(form, parts); sig != "" {
			col.add(failure{sig, msg, Input{Phase: "text", Form: form, Parts: parts}})
		}
	}
	sepNode := "@/" // reserved by the address grammar name@domain/instance
	names, opt := words(1, L, sepNode), words(0, L, sepNode)
	for _, n := range opt { // Identity: name may be empty when a domain is given (text "@d"); both empty = zero value = absent
		for _, d := range opt {
			if n == "" && d == "" {
				continue
			}
			text("identity", n, d)
		}
	}
	for _, n := range names { // Node: non-empty name, optional domain, optional instance
		for _, d := range opt {
			for _, i := range opt {
				text("node", n, d, i)
			}
		}
	}
	for _, d := range names { // Node with empty name but a domain ("@d", "@d/i")
		for _, i := range opt {
			text("node", "", d, i)
		}
	}
	sepMT := "/+" // reserved by type/subtype+suffix
	mtw, mto := words(1, L, sepMT), words(0, L, sepMT)
	for _, a := range mtw {
		for _, b := range mtw {
			for _, c := range mto {
				text("mediatype", a, b, c)
			}
		}
	}
	for _, a := range []string{"A", "aB", "Ab.C"} { // letter case is part of a media type's text
		for _, b := range []string{"a", "B", "vnd.Acme"} {
			for _, c := range []string{"", "json", "JSON"} {
				text("mediatype", a, b, c)
				text("mediatype", b, a, c)
			}
		}
	}
	for _, s := range words(0, L+1, "") { // URIs: the whole alphabet; strings ParseLimeURI rejects are not values
		text("uri", "/"+s)
		text("uri", s)
		text("uri", "/p?"+s)
		text("uri", "lime://"+s+"/p")
		text("uri", "/p#"+s)
		text("uri", "/p?a=1#"+s)
	}
	for _, s := range codec.URIs {
		text("uri", s)
	}
	text("enum")

	if capped != 0 {
		r.NotExhaustive("internal budget reached before all envelope cases were evaluated")
	}
	var sigs []string
	for s := range col.m {
		sigs = append(sigs, s)
	}
	sort.Strings(sigs)
	for _, s := range sigs {
		f := col.m[s]
		r.Fail(f.sig, f.msg, f.in)
	}
	pk := map[string]int64{}
	for k, v := range perKind {
		pk[k] = *v
	}
	r.Set("per_kind", pk)
	r.Set("depth", depth)
	r.Set("documents", len(docs))
	r.Set("bodies", len(cases))
	r.Set("bases_full", len(full))
	r.Set("bases_pairwise", len(pw))
	r.Set("text_forms", nText)
	r.Set("text_component_max_len", L)
	r.Set("remarshal_not_byte_identical", fixedMiss)
	r.Set("excluded_shapes", []string{
		"Message with nil Content; Command with Type but no Resource (or Resource without Type); RequestCommand with nil URI; ResponseCommand with empty Status; Session with empty State (the library's own contract calls these ill-formed)",
		"Session with Authentication but empty Scheme, or Scheme different from the authentication's scheme",
		"Message/Command/Container whose declared type maps to a different registered document kind than the value held",
		"DocumentContainer with nil Value; DocumentCollection with zero ItemType or a nil item",
		"zero MediaType / zero Node / zero Identity as text forms (they are 'absent': String() is \"\")",
		"Node with empty identity but an instance (text \"/i\"); MediaType with empty Type or Subtype",
		"Identity/Node components containing '@' or '/', MediaType components containing '/' or '+' (separators reserved by the grammar)",
		"chat.DelegationMessage with zero Type; chat contact PhotoUri with userinfo (url.URL is encoded field-wise by encoding/json)",
		"strings that are not valid UTF-8",
	})
	r.Finish()
}

// replay re-runs exactly one recorded input.
func replay(r *sx.Report, in Input) {
	switch in.Phase {
	case "envelope":
		cases := codec.Cases(codec.Docs(in.Depth))
		if in.Case < 0 || in.Case >= len(cases) || cases[in.Case].Class != in.Class || cases[in.Case].Kind != in.Kind {
			// the grammar changed since the replay was written: find the class
			in.Case = -1
			for i, c := range cases {
				if c.Class == in.Class && c.Kind == in.Kind {
					in.Case = i
					break
				}
			}
			if in.Case < 0 {
				fmt.Println("TOOL-ERROR: replay case not found in the grammar")
				return
			}
		}
		c := cases[in.Case]
		b := codec.MkBase(in.Base[0], in.Base[1], in.Base[2], in.Base[3], in.Base[4])
		fails, enc, _ := checkEnvelope(c.Kind, c.Make(b.Env))
		in.JSON = string(enc)
		fmt.Printf("replay: %s %s base=%v json=%s\n", c.Kind, c.Class, in.Base, enc)
		for _, f := range fails {
			r.Fail(f[0], f[1], in)
		}
	case "text":
		if sig, msg := checkText(in.Form, in.Parts); sig != "" {
			r.Fail(sig, msg, in)
		}
	}
}
