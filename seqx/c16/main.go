// Check C16: inbound envelope size is bounded by the read limit.
//
// Engine: seqx (sequential bounded-exhaustive enumeration). The REAL
// tcpTransport is built over the passive scripted connection (package pconn)
// with TCPConfig.ReadLimit = L; the connection counts the bytes it hands out
// during each single Receive call.
//
// SIZE of an envelope = number of bytes of its encoding on the wire as the
// transport's own encoder writes it: the JSON text PLUS the trailing newline
// (json.Encoder terminates every value with '\n'). Streams are the plain
// concatenation of such encodings; they contain only well-formed envelopes
// (session envelopes {"state":"new"} padded in a metadata value or the id).
//
// Oracle (exactly the property statement), per stream, Receive after Receive
// until the first error (behaviour after an error is unspecified):
//
//	O1 bytes handed out by the connection during any single Receive <= L
//	                                                   (consumed-over-limit)
//	O2 an envelope of size > 2L is never returned (that Receive errors)
//	                                                     (oversize-accepted)
//	O3 an envelope of size <= L whose predecessors were all accepted is
//	   returned                                      (within-limit-rejected)
//	   ... with equal content                  (within-limit-content-differs)
//	   sizes in (L, 2L] may go either way and are not compared.
//	O4 Receive never panics and never returns (nil, nil)      (panic, nil-env)
package main

import (
	"context"
	"errors"
	"fmt"
	"io"
	"net"
	"os"
	"sort"
	"strconv"
	"strings"
	"sync"
	"sync/atomic"
	"time"

	lime "github.com/takenet/lime-go"

	"verif/seqx/pconn"
	"verif/seqx/sx"
)

// Input is what a replay file carries.
type Input struct {
	Mode  string `json:"mode"`            // pconn | listener | dial
	L     int64  `json:"L"`               // TCPConfig.ReadLimit (0: the default, 8 MiB)
	Sizes []int  `json:"sizes"`           // encoded sizes (incl. trailing newline) of the envelopes of the stream
	RPlan string `json:"rplan,omitempty"` // delivery plan (pconn syntax; "d1*N" = N one-byte reads)
	Trace bool   `json:"trace,omitempty"` // TCPConfig.TraceWriter set (envelopes are copied to a trace sink)
}

// discardTrace is a TraceWriter whose sinks throw everything away.
type discardTrace struct{ s, r io.Writer }

func (d *discardTrace) SendWriter() *io.Writer    { return &d.s }
func (d *discardTrace) ReceiveWriter() *io.Writer { return &d.r }

func tcpConfig(L int64, trace bool) *lime.TCPConfig {
	cfg := &lime.TCPConfig{ReadLimit: L}
	if trace {
		cfg.TraceWriter = &discardTrace{io.Discard, io.Discard}
	}
	return cfg
}

type failure struct {
	clause, pos, scope string
	msg                string
	in                 Input
	cost               [4]int64
	tie                string
}

func (f *failure) key() string {
	k := f.clause + ":" + f.pos
	if f.scope != "" {
		k += ":" + f.scope
	}
	return k
}

type aggregator struct {
	mu sync.Mutex
	m  map[string]*failure
}

func (a *aggregator) add(f *failure) {
	if f == nil {
		return
	}
	f.tie = fmt.Sprint(f.in.Sizes) + f.in.RPlan
	a.mu.Lock()
	old, ok := a.m[f.key()]
	better := !ok
	if ok {
		better = false
		for i := range f.cost {
			if f.cost[i] != old.cost[i] {
				better = f.cost[i] < old.cost[i]
				break
			}
			if i == len(f.cost)-1 {
				better = f.tie < old.tie
			}
		}
	}
	if better {
		a.m[f.key()] = f
	}
	a.mu.Unlock()
}

// minimal drops "later" (envelope after accepted predecessors) when the same
// clause already fails for the "first" envelope of a connection in the same
// scope, and native-socket failures of a clause that already fails on the
// scripted connection: the signature names the smallest failing class.
func (a *aggregator) minimal() []*failure {
	var out []*failure
	for _, f := range a.m {
		if f.pos == "later" {
			g := *f
			g.pos = "first"
			if _, ok := a.m[g.key()]; ok {
				continue
			}
		}
		if f.scope == "listener" || f.scope == "dial" {
			// the native sub-check exists for the propagation of the
			// configured limit; when the same clause already fails on the
			// scripted connection the cause is the transport itself
			dominated := false
			for _, g := range a.m {
				if g.scope == "" && g.clause == f.clause {
					dominated = true
				}
			}
			if dominated {
				continue
			}
		}
		out = append(out, f)
	}
	sort.Slice(out, func(i, j int) bool { return out[i].key() < out[j].key() })
	return out
}

var (
	agg = &aggregator{m: map[string]*failure{}}
	rep *sx.Report
	bg  = context.Background()

	itemMu sync.Mutex
	itemBy = map[int]*pconn.Item{}

	nFixed, nSplit2, nSplit3, nGrid, nChunk, nDefault, nNative  atomic.Int64
	nReceives, nAccepted, nRejected, nMidAccepted, nMidRejected atomic.Int64
	maxHandedRatio                                              atomic.Int64 // max over receives of handed*1000/L
)

func item(size int) *pconn.Item {
	itemMu.Lock()
	defer itemMu.Unlock()
	it, ok := itemBy[size]
	if !ok {
		if size < 0 {
			it = pconn.Junk(-size) // a negative size stands for a non-envelope JSON value of that size
		} else {
			it = pconn.PaddedSession(size)
		}
		itemBy[size] = it
	}
	return it
}

type worker struct {
	rc    *pconn.Conn
	key   []byte
	trace bool
}

func (w *worker) eval(L int64, sizes []int, plan pconn.Plan, planName string, nontrivial bool) {
	k := append(w.key[:0], 'L')
	k = strconv.AppendInt(k, L, 10)
	for _, s := range sizes {
		k = append(k, ',')
		k = strconv.AppendInt(k, int64(s), 10)
	}
	k = append(k, '#')
	if planName != "" {
		k = append(k, planName...)
	} else {
		k = plan.AppendTo(k)
	}
	w.key = k
	rep.Eval(string(k), nontrivial)
}

func planString(p pconn.Plan) string {
	// compress runs of identical steps
	var sb strings.Builder
	for i := 0; i < len(p); {
		j := i
		for j < len(p) && p[j] == p[i] {
			j++
		}
		if sb.Len() > 0 {
			sb.WriteByte(' ')
		}
		sb.WriteString(p[i].String())
		if j-i > 1 {
			sb.WriteString("*" + strconv.Itoa(j-i))
		}
		i = j
	}
	return sb.String()
}

// check runs one stream under one delivery plan against limit L (0: default).
func (w *worker) check(L int64, sizes []int, its []*pconn.Item, wire []byte, plan pconn.Plan) *failure {
	eff := L
	scope := ""
	if L == 0 {
		eff = lime.DefaultReadLimit
		scope = "default-limit"
	}
	w.rc.Reset(wire, plan, nil)
	var res *failure
	mk := func(i int, clause, msg string) *failure {
		pos := "first"
		if i > 0 {
			pos = "later"
		}
		return &failure{clause: clause, pos: pos, scope: scope,
			msg:  fmt.Sprintf(map[bool]string{false: "", true: "TraceWriter set, "}[w.trace]+"ReadLimit %d, stream of envelopes with sizes %v (size = JSON + newline) delivered under plan %q: envelope #%d (size %d): %s", eff, sizes, planString(plan), i, sizes[i], msg),
			in:   Input{Mode: "pconn", L: L, Sizes: append([]int(nil), sizes...), RPlan: planString(plan), Trace: w.trace},
			cost: [4]int64{int64(len(sizes)), eff, int64(len(wire)), int64(len(plan))}}
	}
	func() {
		i := 0
		defer func() {
			if p := recover(); p != nil {
				res = mk(i, "panic", fmt.Sprint(p))
			}
		}()
		rx := lime.NewTCPTransportFromConn(w.rc, tcpConfig(L, w.trace), true)
		for ; i < len(its); i++ {
			w.rc.Mark()
			env, err := pconn.Receive(bg, rx)
			handed := int64(w.rc.Handed)
			nReceives.Add(1)
			if r := handed * 1000 / eff; r > maxHandedRatio.Load() {
				for {
					old := maxHandedRatio.Load()
					if r <= old || maxHandedRatio.CompareAndSwap(old, r) {
						break
					}
				}
			}
			size := int64(sizes[i])
			if size < 0 {
				// a well-formed JSON value that is no envelope: Receive reports an error for it and
				// the stream goes on (the budget rule applies to it like to anything else)
				if handed > eff {
					res = mk(i, "consumed-over-limit", fmt.Sprintf("this single Receive (of a non-envelope JSON value) consumed %d bytes, more than the limit", handed))
					return
				}
				if err == nil {
					return // accepted junk is not this property's business
				}
				continue
			}
			if handed > eff {
				res = mk(i, "consumed-over-limit", fmt.Sprintf("this single Receive consumed %d bytes from the connection, more than the limit (it returned err=%v)", handed, err))
				return
			}
			if err != nil {
				nRejected.Add(1)
				if size <= eff {
					res = mk(i, "within-limit-rejected", fmt.Sprintf("within the limit and all predecessors were accepted, but Receive returned %v", err))
				} else if size <= 2*eff {
					nMidRejected.Add(1)
				}
				return
			}
			nAccepted.Add(1)
			if env == nil {
				res = mk(i, "nil-env", "Receive returned (nil, nil)")
				return
			}
			if size > 2*eff {
				res = mk(i, "oversize-accepted", "larger than twice the limit but Receive returned it")
				return
			}
			if size <= eff {
				c, err := pconn.Canon(env)
				if err != nil || c != its[i].Canon {
					res = mk(i, "within-limit-content-differs", fmt.Sprintf("returned with different content: %.200s (err %v)", c, err))
					return
				}
			} else {
				nMidAccepted.Add(1)
			}
		}
	}()
	return res
}

// ---------------------------------------------------------------- pool

type job func(w *worker)

type pool struct {
	ch      chan job
	wg      sync.WaitGroup
	expired atomic.Bool
}

func newPool(n int) *pool {
	p := &pool{ch: make(chan job, 256)}
	for i := 0; i < n; i++ {
		p.wg.Add(1)
		go func() {
			defer p.wg.Done()
			w := &worker{rc: pconn.New(nil, nil, nil)}
			for j := range p.ch {
				if p.expired.Load() {
					continue
				}
				if rep.Expired() {
					p.expired.Store(true)
					continue
				}
				j(w)
			}
		}()
	}
	return p
}

func (p *pool) submit(j job) { p.ch <- j }
func (p *pool) wait()        { close(p.ch); p.wg.Wait() }

// ---------------------------------------------------------------- enumeration

func sizeSet(L int) []int {
	tiny := pconn.MinSessionSize()
	raw := []int{tiny, L / 2, L - 1, L, L + 1, L + 200, 2*L - 1, 2 * L, 2*L + 1, 3 * L, 10 * L}
	seen := map[int]bool{}
	var out []int
	for _, s := range raw {
		if !seen[s] {
			seen[s] = true
			out = append(out, s)
		}
	}
	return out
}

func chunkPlan(n, c int) pconn.Plan {
	p := make(pconn.Plan, 0, n/c+1)
	for off := 0; off < n; off += c {
		p = append(p, pconn.Act{K: 'd', N: c})
	}
	return p
}

type bounds struct {
	maxLen         int // stream length
	split3MaxBytes int // every split into <=3 reads for streams up to this many bytes
	split2MaxBytes int // every split into <=2 reads for streams up to this many bytes
	oneByteMax     int // 1-byte reads for streams up to this many bytes
}

func enumLimit(p *pool, L int, b bounds) (streams int) {
	all := sizeSet(L)
	var inner []int // sizes that may be followed by something meaningful: not certainly rejected
	for _, s := range all {
		if s <= 2*L {
			inner = append(inner, s)
		}
	}
	var rec func(prefix []int)
	emit := func(sizes []int) {
		streams++
		sizes = append([]int(nil), sizes...)
		p.submit(func(w *worker) { runStream(w, int64(L), sizes, b) })
	}
	rec = func(prefix []int) {
		for _, s := range all {
			emit(append(prefix, s))
		}
		if len(prefix)+1 < b.maxLen {
			for _, s := range inner {
				rec(append(append([]int(nil), prefix...), s))
			}
		}
	}
	rec(nil)
	// "no matter how much data preceded it": also JSON values that are not envelopes
	// (each is rejected by its own Receive; what follows must still be accepted)
	for _, j := range []int{L / 2, L - 1, L} {
		for _, s := range []int{pconn.MinSessionSize(), L / 2, L - 1, L} {
			emit([]int{-j, s})
			emit([]int{s, -j, s})
			emit([]int{-j, -j, s})
		}
	}
	return streams
}

// gridFor returns the cut points used for long streams: within 1 of every
// envelope boundary, of every boundary +-L, of every multiple of L and of
// 512 (the decoder's buffer quantum).
func gridFor(L int, sizes []int, n int) []int {
	set := map[int]bool{}
	add := func(o int) {
		for d := -1; d <= 1; d++ {
			if o+d > 0 && o+d < n {
				set[o+d] = true
			}
		}
	}
	cum := 0
	for _, s := range sizes {
		cum += s
		add(cum)
		add(cum - L)
		add(cum + L)
	}
	for m := L; m < n; m += L {
		add(m)
	}
	for m := 512; m < n; m += 512 {
		add(m)
	}
	out := make([]int, 0, len(set))
	for o := range set {
		out = append(out, o)
	}
	sort.Ints(out)
	return out
}

func runStream(w *worker, L int64, sizes []int, b bounds) {
	its := make([]*pconn.Item, len(sizes))
	for i, s := range sizes {
		its[i] = item(s)
	}
	wire := pconn.Concat(its)
	n := len(wire)
	one := func(plan pconn.Plan, name string, ctr *atomic.Int64, nontrivial bool) {
		agg.add(w.check(L, sizes, its, wire, plan))
		w.eval(L, sizes, plan, name, nontrivial)
		ctr.Add(1)
	}
	// everything coalesced (default delivery)
	one(nil, "", &nFixed, false)
	// one envelope per read, plain and with a stall before every read
	var per, perStall pconn.Plan
	for _, s := range sizes {
		per = append(per, pconn.Act{K: 'd', N: s})
		perStall = append(perStall, pconn.Act{K: 't'}, pconn.Act{K: 'd', N: s})
	}
	one(per, "", &nFixed, true)
	one(perStall, "", &nFixed, true)
	// the same stream with a TraceWriter configured (the limit applies to what is read, traced or not)
	w.trace = true
	one(nil, "trace-coalesced", &nFixed, true)
	one(per, "trace-per-envelope", &nFixed, true)
	if int(L)+1 < n {
		one(chunkPlan(n, int(L)+1), "trace-chunk", &nFixed, true)
	}
	w.trace = false
	// the JSON text and the newline of each envelope in separate reads
	var jn pconn.Plan
	for _, s := range sizes {
		jn = append(jn, pconn.Act{K: 'd', N: s - 1}, pconn.Act{K: 'd', N: 1})
	}
	one(jn, "", &nFixed, true)
	// fixed-size reads
	Li := int(L)
	for _, c := range []int{1, 2, 7, Li - 1, Li, Li + 1, 2 * Li, 2*Li + 1, 511, 512, 513} {
		if c == 1 && n > b.oneByteMax {
			continue
		}
		if c >= n || c < 1 {
			continue
		}
		one(chunkPlan(n, c), "chunk"+strconv.Itoa(c), &nChunk, true)
	}
	// every split into 2 reads / 3 reads
	if n <= b.split2MaxBytes {
		for c := 1; c < n; c++ {
			one(pconn.Plan{{K: 'd', N: c}, {K: 'd', N: n - c}}, "", &nSplit2, true)
		}
	}
	if n <= b.split3MaxBytes {
		var buf pconn.Plan
		pconn.ForEachCuts(n, 2, 0, func(cuts []int) {
			buf = pconn.SegmentsPlan(buf[:0], n, cuts)
			one(buf, "", &nSplit3, true)
		})
	} else {
		// long stream: 1 and 2 cut points from the grid
		g := gridFor(Li, sizes, n)
		if n > b.split2MaxBytes {
			for _, c := range g {
				one(pconn.Plan{{K: 'd', N: c}, {K: 'd', N: n - c}}, "", &nGrid, true)
			}
		}
		var buf pconn.Plan
		for i := 0; i < len(g); i++ {
			for j := i + 1; j < len(g); j++ {
				buf = pconn.SegmentsPlan(buf[:0], n, []int{g[i], g[j]})
				one(buf, "", &nGrid, true)
			}
		}
	}
}

// ---------------------------------------------------------------- default limit

func runDefault(p *pool) {
	const MiB = 1 << 20
	D := int(lime.DefaultReadLimit)
	streams := [][]int{{MiB}, {D}, {17 * MiB}, {MiB, 17 * MiB}, {MiB, D, MiB}, {D - 1, MiB, 17 * MiB}, {pconn.MinSessionSize(), D + 1 + MiB, MiB}}
	for _, sizes := range streams {
		sizes := sizes
		p.submit(func(w *worker) {
			its := make([]*pconn.Item, len(sizes))
			for i, s := range sizes {
				its[i] = item(s)
			}
			wire := pconn.Concat(its)
			n := len(wire)
			plans := map[string]pconn.Plan{"": nil, "chunk65536": chunkPlan(n, 65536), "chunk1000003": chunkPlan(n, 1000003)}
			var per pconn.Plan
			for _, s := range sizes {
				per = append(per, pconn.Act{K: 'd', N: s})
			}
			plans["per-envelope"] = per
			for name, pl := range plans {
				agg.add(w.check(0, sizes, its, wire, pl))
				w.eval(0, sizes, nil, "default/"+name, name != "")
				nDefault.Add(1)
			}
		})
	}
}

// ---------------------------------------------------------------- native sub-check

// freePort asks the kernel for a free loopback port and releases it.
func freePort() (int, error) {
	l, err := net.Listen("tcp", "127.0.0.1:0")
	if err != nil {
		return 0, err
	}
	port := l.Addr().(*net.TCPAddr).Port
	return port, l.Close()
}

// native runs the accept/reject clauses (O2, O3) through real loopback
// sockets: mode "listener" = lime.NewTCPTransportListener(ReadLimit L).Accept
// fed by a raw client; mode "dial" = lime.DialTcp(ReadLimit L) fed by a raw
// server. The per-call byte count cannot be observed on a real socket.
func native(mode string, L int64, sizes []int) (f *failure, toolErr error) {
	its := make([]*pconn.Item, len(sizes))
	for i, s := range sizes {
		its[i] = item(s)
	}
	wire := pconn.Concat(its)
	ctx, cancel := context.WithTimeout(bg, 20*time.Second)
	defer cancel()
	var tr lime.Transport
	var raw net.Conn
	cfg := &lime.TCPConfig{ReadLimit: L}
	switch mode {
	case "listener":
		var lst lime.TransportListener
		var addr *net.TCPAddr
		var err error
		for try := 0; try < 5; try++ {
			var port int
			if port, err = freePort(); err != nil {
				return nil, err
			}
			addr = &net.TCPAddr{IP: net.IPv4(127, 0, 0, 1), Port: port}
			lst = lime.NewTCPTransportListener(cfg)
			if err = lst.Listen(ctx, addr); err == nil {
				break
			}
		}
		if err != nil {
			return nil, err
		}
		defer lst.Close()
		raw, err = net.Dial("tcp", addr.String())
		if err != nil {
			return nil, err
		}
		defer raw.Close()
		tr, err = lst.Accept(ctx)
		if err != nil {
			return nil, err
		}
	case "dial":
		l, err := net.Listen("tcp", "127.0.0.1:0")
		if err != nil {
			return nil, err
		}
		defer l.Close()
		tr, err = lime.DialTcp(ctx, l.Addr(), cfg)
		if err != nil {
			return nil, err
		}
		raw, err = l.Accept()
		if err != nil {
			return nil, err
		}
		defer raw.Close()
	default:
		return nil, errors.New("unknown native mode " + mode)
	}
	defer tr.Close()
	werr := make(chan error, 1)
	go func() {
		_, err := raw.Write(wire)
		werr <- err
	}()
	defer func() { raw.Close(); <-werr }()
	mk := func(i int, clause, msg string) *failure {
		pos := "first"
		if i > 0 {
			pos = "later"
		}
		return &failure{clause: clause, pos: pos, scope: mode,
			msg:  fmt.Sprintf("real loopback socket, %s with ReadLimit %d, stream sizes %v: envelope #%d (size %d): %s", mode, L, sizes, i, sizes[i], msg),
			in:   Input{Mode: mode, L: L, Sizes: sizes},
			cost: [4]int64{int64(len(sizes)), L, int64(len(wire)), 0}}
	}
	for i := range its {
		env, err := pconn.Receive(ctx, tr)
		size := int64(sizes[i])
		if err != nil {
			if ctx.Err() != nil {
				return nil, fmt.Errorf("native %s: timed out: %v", mode, err)
			}
			if size <= L {
				return mk(i, "within-limit-rejected", fmt.Sprintf("Receive returned %v", err)), nil
			}
			return nil, nil
		}
		if size > 2*L {
			return mk(i, "oversize-accepted", "larger than twice the configured limit but Receive returned it (is the configured limit applied to this transport?)"), nil
		}
		if size <= L {
			if c, _ := pconn.Canon(env); c != its[i].Canon {
				return mk(i, "within-limit-content-differs", "content differs"), nil
			}
		}
	}
	return nil, nil
}

func runNative() {
	var notes []string
	count := 0
	for _, mode := range []string{"listener", "dial"} {
		for _, L := range []int64{64, 256, 1024} {
			Li := int(L)
			tiny := pconn.MinSessionSize()
			for _, sizes := range [][]int{{Li}, {3 * Li}, {2*Li + 1}, {10 * Li}, {tiny, Li - 1, Li, 10 * Li}, {Li, Li, 3 * Li}} {
				f, err := native(mode, L, sizes)
				if err != nil {
					notes = append(notes, fmt.Sprintf("%s L=%d %v: %v", mode, L, sizes, err))
					continue
				}
				agg.add(f)
				rep.Eval(fmt.Sprintf("native/%s/L%d/%v", mode, L, sizes), true)
				count++
				nNative.Add(1)
			}
		}
	}
	if len(notes) > 0 {
		rep.Set("native_loopback", map[string]interface{}{"covered_cases": count, "not_covered": notes})
	} else {
		rep.Set("native_loopback", fmt.Sprintf("covered: %d cases through lime.NewTCPTransportListener(...).Accept and lime.DialTcp over real loopback sockets (free port obtained from the kernel, released, then handed to Listen); only the accept/reject clauses are observable there", count))
	}
}

// ---------------------------------------------------------------- main

func replay(in Input) {
	switch in.Mode {
	case "pconn", "":
		plan, err := pconn.Parse(in.RPlan)
		if err != nil {
			fmt.Fprintln(os.Stderr, "TOOL-ERROR:", err)
			os.Exit(2)
		}
		its := make([]*pconn.Item, len(in.Sizes))
		for i, s := range in.Sizes {
			its[i] = item(s)
		}
		w := &worker{rc: pconn.New(nil, nil, nil), trace: in.Trace}
		agg.add(w.check(in.L, in.Sizes, its, pconn.Concat(its), plan))
	case "listener", "dial":
		f, err := native(in.Mode, in.L, in.Sizes)
		if err != nil {
			fmt.Fprintln(os.Stderr, "TOOL-ERROR:", err)
			os.Exit(2)
		}
		agg.add(f)
	default:
		fmt.Fprintln(os.Stderr, "TOOL-ERROR: unknown mode", in.Mode)
		os.Exit(2)
	}
}

func main() {
	rule := "C16 fault_enumeration over the real tcpTransport on a passive scripted net.Conn with TCPConfig.ReadLimit L in {64,256,1024}. " +
		"SIZE of an envelope = bytes of its wire encoding = JSON text + the trailing newline the encoder writes. " +
		"Streams: every sequence of 1..3 (thorough: 1..4) well-formed envelopes with sizes from {tiny(16), L/2, L-1, L, L+1, L+200, 2L-1, 2L, 2L+1, 3L, 10L}, every order, " +
		"except that an envelope > 2L (certainly refused; behaviour afterwards unspecified) only occurs last. " +
		"Delivery plans per stream: everything coalesced; one envelope per read (plain / a stall before each read); coalesced, one per read and L+1-byte reads again with TCPConfig.TraceWriter set; JSON text and newline in separate reads; " +
		"fixed-size reads of 1,2,7,L-1,L,L+1,2L,2L+1,511,512,513 bytes (1-byte reads up to coverage.one_byte_max bytes); every split into 2 reads at every byte boundary for streams up to coverage.split2_max bytes; " +
		"every split into 3 reads at every pair of boundaries for streams up to coverage.split3_max bytes, longer streams: 1 and 2 cut points from the stated grid (within 1 byte of every envelope boundary, boundary+-L, multiple of L, multiple of 512). " +
		"Thorough: default limit (8 MiB) with 1 MiB / 8 MiB / 17 MiB envelopes. Native sub-check of the accept/reject clauses over real loopback sockets (listener.Accept and DialTcp). " +
		"A plan is non-trivial when it is not the default (coalesced) delivery."
	rep = sx.New("C16", "fault_enumeration", rule, []string{
		"encoding/json and the Go runtime are trusted",
		"streams contain only well-formed envelopes; the run of a stream stops at the first Receive error (behaviour afterwards is unspecified by the property)",
		"envelopes with L < size <= 2L may be accepted or refused; neither outcome is judged",
		"on real sockets (native sub-check) fragmentation is chosen by the kernel; only the fragmentation-independent clauses O2/O3 are judged there",
	})
	var in Input
	if _, ok := rep.ReplayInput(&in); ok {
		replay(in)
		for _, f := range agg.minimal() {
			rep.Fail(f.key(), f.msg, f.in)
		}
		rep.Finish()
		return
	}
	b := bounds{maxLen: 3, split3MaxBytes: 140, split2MaxBytes: 1100, oneByteMax: 1 << 30}
	if rep.Thorough() {
		b = bounds{maxLen: 4, split3MaxBytes: 300, split2MaxBytes: 3000, oneByteMax: 1 << 30}
	}
	rep.Set("split3_max", b.split3MaxBytes)
	rep.Set("split2_max", b.split2MaxBytes)
	rep.Set("one_byte_max", "unbounded")
	rep.Set("max_stream_len", b.maxLen)

	for _, s := range []Input{
		{Mode: "pconn", L: 64, Sizes: []int{16, 64, 264}, RPlan: ""},
		{Mode: "pconn", L: 64, Sizes: []int{63, 64, 129}, RPlan: "d1*256"},
		{Mode: "pconn", L: 256, Sizes: []int{128, 456, 256}, RPlan: "d128 d456 d256"},
		{Mode: "pconn", L: 1024, Sizes: []int{16, 10240}, RPlan: "d700 d9556"},
	} {
		save := agg
		agg = &aggregator{m: map[string]*failure{}}
		replay(s)
		verdict := "ok"
		for _, f := range agg.minimal() {
			verdict = "VIOLATION " + f.key()
		}
		agg = save
		rep.Sample(map[string]interface{}{"input": s, "verdict": verdict})
	}

	p := newPool(rep.Workers)
	counts := map[string]int{}
	for _, L := range []int{64, 256, 1024} {
		counts[fmt.Sprintf("L=%d", L)] = enumLimit(p, L, b)
	}
	rep.Set("streams_per_limit", counts)
	if rep.Thorough() {
		runDefault(p)
	} else {
		rep.Set("default_limit", "not run in the quick tier (thorough only)")
	}
	p.wait()
	if p.expired.Load() {
		rep.NotExhaustive("wall-clock budget exhausted before all plans were evaluated")
	}
	runNative()

	rep.Set("plans_fixed", nFixed.Load())
	rep.Set("plans_chunked", nChunk.Load())
	rep.Set("plans_split2_every_boundary", nSplit2.Load())
	rep.Set("plans_split3_every_boundary", nSplit3.Load())
	rep.Set("plans_grid", nGrid.Load())
	rep.Set("plans_default_limit", nDefault.Load())
	rep.Set("cases_native", nNative.Load())
	rep.Set("receive_calls", nReceives.Load())
	rep.Set("receives_accepted", nAccepted.Load())
	rep.Set("receives_refused", nRejected.Load())
	rep.Set("between_L_and_2L_accepted_not_judged", nMidAccepted.Load())
	rep.Set("between_L_and_2L_refused_not_judged", nMidRejected.Load())
	rep.Set("max_bytes_consumed_by_one_receive_permille_of_limit", maxHandedRatio.Load())
	var sigs []string
	for _, f := range agg.minimal() {
		rep.Fail(f.key(), f.msg, f.in)
		sigs = append(sigs, f.key())
	}
	rep.Set("failing_classes_minimal", sigs)
	rep.Finish()
}
