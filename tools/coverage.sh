#!/bin/bash
# Diagnostic (not registered in MANIFEST.json): statement coverage of lime-go reached by the quick
# tier of the given checks (default: all). Writes tools/coverage/<ID>.func.txt and a merged summary.
# gosim checks: `go build -cover` ignores -overlay for the instrumented package, so the rewritten
# lime-go sources are materialised as a scratch module copy and go.mod is overlaid to point at it.
ROOT="$(cd "$(dirname "$0")/.." && pwd)"; cd "$ROOT"
export GOFLAGS=-mod=mod GOPROXY=off GOSUMDB=off GOTOOLCHAIN=local GODEBUG=goindex=0 GOCACHE="$ROOT/.cache/go-build"
IDS="${@:-C01 C02 C03 C04 C05 C06 C07 C08 C09 C10 C11 C12 C13 C14 C15 C16 C17 C18 C19 C20}"
OUT="$ROOT/tools/coverage"; mkdir -p "$OUT"
S=$(mktemp -d /tmp/verif-cov.XXXXXX); trap 'rm -rf "$S"' EXIT
go build -o bin/gosim-rewrite ./cmd/gosim-rewrite || exit 2
for ID in $IDS; do
  lc=$(echo "$ID" | tr A-Z a-z); D="$S/$ID"; mkdir -p "$D/cov"
  if [ -d "scen/$lc" ]; then
    ./bin/gosim-rewrite -dir "$ROOT" -out "$D/rw" github.com/takenet/lime-go golang.org/x/sync/errgroup github.com/gorilla/websocket verif/scen/lib verif/scen/hsrv "verif/scen/$lc" >"$D/rewrite.log" 2>&1 || { cat "$D/rewrite.log"; exit 2; }
    mkdir -p "$D/lime" "$D/verif"; (cd /repo && tar --exclude=.git -cf - .) | (cd "$D/lime" && tar -xf -)
    (cd "$ROOT" && tar --exclude=.git --exclude=.cache --exclude=bin --exclude=evidence --exclude=replays --exclude=seeded --exclude=tools/coverage -cf - .) | (cd "$D/verif" && tar -xf -)
    python3 - "$D" "$ROOT" <<'PY'
import json,sys,os,shutil
D,ROOT=sys.argv[1],sys.argv[2]
ov=json.load(open(D+'/rw/overlay.json'))['Replace']
new={}
for k,v in ov.items():
    if k.startswith('/repo/'):
        shutil.copy(v, D+'/lime/'+k[len('/repo/'):])
    elif k.startswith(ROOT+'/'):
        shutil.copy(v, D+'/verif/'+k[len(ROOT)+1:])
    else:
        new[k]=v
gm=open(ROOT+'/go.mod').read().replace('=> /repo','=> '+D+'/lime')
open(D+'/verif/go.mod','w').write(gm)
json.dump({'Replace':new}, open(D+'/overlay2.json','w'))
PY
    (cd "$D/verif" && go build -cover -coverpkg="verif/scen/$lc,github.com/takenet/lime-go" -tags verif -overlay "$D/overlay2.json" -o "$D/check.bin" "./scen/$lc") >"$D/build.log" 2>&1 || { tail -5 "$D/build.log"; echo "build failed for $ID"; continue; }
  else
    go build -cover -coverpkg="verif/seqx/$lc,github.com/takenet/lime-go,github.com/takenet/lime-go/chat" -tags verif -o "$D/check.bin" "./seqx/$lc" >"$D/build.log" 2>&1 || { tail -5 "$D/build.log"; continue; }
  fi
  GOCOVERDIR="$D/cov" "$D/check.bin" --tier quick --evidence "$D/e.json" --known "$ROOT/KNOWN_FINDINGS.txt" --replays "$D/replays" 2>&1 | grep -a "^property\|VIOLATION" | cut -c1-160
  go tool covdata textfmt -i="$D/cov" -o "$D/prof.txt" 2>/dev/null
  grep -v "verif/" "$D/prof.txt" > "$OUT/$ID.prof.txt"
  # per-function figures, resolved against the sources that were actually compiled
  if [ -d "$D/verif" ]; then (cd "$D/verif" && go tool cover -func="$OUT/$ID.prof.txt") > "$OUT/$ID.func.txt" 2>/dev/null
  else go tool cover -func="$OUT/$ID.prof.txt" > "$OUT/$ID.func.txt" 2>/dev/null; fi
  if [ -d "$D/lime" ]; then rm -rf "$OUT/lime-rw"; mkdir -p "$OUT/lime-rw"; cp "$D"/lime/*.go "$OUT/lime-rw/"; fi
  rm -rf "$D/cov" "$D/lime" "$D/verif" "$D/check.bin"
done
# merged per function: the best figure any check reaches
python3 - "$OUT" <<'PY'
import sys,glob,collections,re
out=sys.argv[1]
best=collections.defaultdict(float); who={}
for f in glob.glob(out+'/C*.func.txt'):
    cid=f.split('/')[-1].split('.')[0]
    for l in open(f):
        m=re.match(r'(\S+?):\d+:\s+(\S+)\s+([\d.]+)%',l)
        if not m or m.group(1)=='total': continue
        k=(m.group(1).replace('github.com/takenet/lime-go/',''),m.group(2)); v=float(m.group(3))
        if v>=best[k]: best[k]=v; who[k]=cid
        best[k]=max(best[k],v)
with open(out+'/merged.func.txt','w') as w:
    for k in sorted(best): w.write('%-28s %-45s %5.1f%%  %s\n'%(k[0],k[1],best[k],who.get(k,'')))
zero=[k for k in best if best[k]==0]
print('functions: %d, never reached by any quick tier: %d, below 60%%: %d'%(len(best),len(zero),sum(1 for k in best if 0<best[k]<60)))
PY

# gosim checks share one rewritten source: merge their block profiles and list what no check reaches
python3 - "$OUT" <<'PY'
import sys,glob,collections,os
out=sys.argv[1]
blocks=collections.defaultdict(int)
for f in glob.glob(out+'/C*.prof.txt'):
    cid=os.path.basename(f).split('.')[0]
    if os.path.isdir('/verif/seqx/'+cid.lower()): continue
    for l in open(f):
        if l.startswith('mode:'): continue
        loc,n,c=l.rsplit(' ',2)
        blocks[loc]=max(blocks[loc],int(c))
src={}
def lines(fn):
    if fn not in src:
        try: src[fn]=open(out+'/lime-rw/'+fn).read().split('\n')
        except: src[fn]=[]
    return src[fn]
with open(out+'/gosim-uncovered.txt','w') as w:
    for loc in sorted(blocks, key=lambda k:(k.split(':')[0], int(k.split(':')[1].split('.')[0]))):
        if blocks[loc]: continue
        fn,rng=loc.split(':'); fn=fn.split('/')[-1]
        a,b=rng.split(','); l1=int(a.split('.')[0]); l2=int(b.split('.')[0])
        L=lines(fn)
        w.write('--- %s:%d-%d\n'%(fn,l1,l2))
        for i in range(l1-1,min(l2,l1+5)):
            if i<len(L): w.write('    '+L[i]+'\n')
print('uncovered blocks (gosim checks):', sum(1 for k in blocks if not blocks[k]), 'of', len(blocks))
PY
