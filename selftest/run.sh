#!/bin/bash
# usage: selftest/run.sh <patch.diff> <ID> [<ID>...]   (applies a deliberate property-breaking
# change to /repo, runs the repo's own tests and the given checks, and reverts)
set -u
P=$(realpath "$1"); shift
cd /repo || exit 2
if [ -n "$(git status --porcelain)" ]; then echo "repo not clean"; exit 2; fi
git apply "$P" || { echo "patch does not apply"; exit 2; }
export GOFLAGS=-mod=mod GOPROXY=off GOSUMDB=off GOTOOLCHAIN=local
if [ -z "${SKIP_REPO_TESTS:-}" ]; then
  if go build ./... && go test -vet=off -count=1 . >/tmp/selftest.log 2>&1; then echo "repo tests: pass"; else echo "repo tests: FAIL (see /tmp/selftest.log)"; fi
fi
for id in "$@"; do
  out=$(cd /verif && ./check "$id" ${TIER:+--tier $TIER} --replays /tmp/selftest-replays --evidence /tmp/selftest-evidence.json 2>&1)
  rc=$?
  echo "check $id rc=$rc: $(echo "$out" | grep -c '^VIOLATION') violation line(s)"
  echo "$out" | grep -A1 '^VIOLATION' | grep 'sig=' | cut -c1-220 | head -5
done
git checkout -- . ; rm -rf /tmp/selftest-replays
