#!/bin/bash
# (c1ac038.diff also reverts the later 0334a10, which touches the same lines.)
# Re-introduces each repaired defect (reverse patch of its fix commit) and shows that the property's
# check reports it again. usage: selftest/reverts/run_all.sh [commit...]
cd /verif
declare -A MAP=( [a8fd6d1]="C10" [f8d290e]="C14" [5d5b55d]="C14" [aa46e72]="C08" [463e084]="C08" [5311227]="C05"
 [a4e14c3]="C13" [285ab64]="C13 C15" [7dd9f59]="C13" [2101793]="C18" [7014154]="C12" [d363189]="C12 C04"
 [d40452e]="C05" [711f6a9]="C05" [037e433]="C19" [71681da]="C15" [ebe3e0d]="C06" [1845044]="C02" [9031832]="C02" [56f5ba8]="C02" [61d4b1f]="C02" [3aa439f]="C11" [72c4b89]="C11" [3ff6b5e]="C13 C19" [b759d39]="C13" [c0e6311]="C13 C18" [d09707b]="C13" [c1ac038]="C13" [0334a10]="C15 C05" [07f669b]="C18" [6728e09]="C13" [eba3f95]="C18" )
# fixes whose defect needs the thorough tier (deviation bound 2, or bound 1 of a scenario the quick tier runs at 0)
THOROUGH=" 6728e09 eba3f95 07f669b "
LIST="${@:-${!MAP[@]}}"
for c in $LIST; do
  echo "=== revert $c ($(git -C /repo log -1 --format=%s $c | cut -c1-70)) -> ${MAP[$c]}"
  if ! git -C /repo apply --check /verif/selftest/reverts/$c.diff 2>/dev/null; then echo "  (reverse patch no longer applies on HEAD: later fixes touch the same lines)"; continue; fi
  T="${TIER:-}"; case "$THOROUGH" in *" $c "*) T=thorough;; esac
  SKIP_REPO_TESTS=1 TIER=$T selftest/run.sh selftest/reverts/$c.diff ${MAP[$c]} 2>&1 | sed 's/^/  /' | cut -c1-200
done
