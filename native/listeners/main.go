// Native sub-check of C14 / C18 for the real listeners (OS sockets, and for
// WebSocket the net/http server), which the gosim scheduler does not own.
//
// It is a sequential enumeration: for each listener kind (tcp, ws) and each scripted client
// behaviour that can make a handshake fail or hang, one real Server is started on a loopback
// port, the client plays its script over a real socket, the Server is closed, and the
// oracle looks at what the client's socket and the process observe. There is one schedule
// per case (the OS's); the evidence says so. Waiting is generous (20 s per observation) and
// only ever bounds how long a *violation* takes to be declared: on code that closes the
// connection the observation arrives in milliseconds.
package main

import (
	"bufio"
	"bytes"
	"encoding/json"
	"errors"
	"flag"
	"fmt"
	"hash/fnv"
	"io"
	"log"
	"net"
	"net/http"
	"os"
	"os/exec"
	"path/filepath"
	"runtime"
	"strings"
	"time"

	"github.com/gorilla/websocket"
	lime "github.com/takenet/lime-go"
)

const patience = 20 * time.Second

type behaviour struct {
	name string
	ws   bool // WebSocket listener only
	tcp  bool // TCP listener only
	// closes: the server must close the connection on its own (handshake failure); otherwise
	// the connection only has to be closed once the Server is closed
	closes bool
	play   func(c *client) error
}

type client struct {
	kind string
	addr string
	raw  net.Conn
	ws   *websocket.Conn
}

func (c *client) dial() error {
	var err error
	c.raw, err = net.DialTimeout("tcp", c.addr, 5*time.Second)
	return err
}

// upgrade performs the WebSocket opening handshake over c.raw.
func (c *client) upgrade(subprotocol string) error {
	hdr := http.Header{}
	if subprotocol != "" {
		hdr["Sec-WebSocket-Protocol"] = []string{subprotocol}
	}
	d := websocket.Dialer{NetDial: func(network, addr string) (net.Conn, error) { return c.raw, nil }, HandshakeTimeout: 10 * time.Second}
	ws, _, err := d.Dial("ws://"+c.addr+"/", hdr)
	c.ws = ws
	return err
}

func (c *client) sendText(s string) error {
	if c.ws != nil {
		return c.ws.WriteMessage(websocket.TextMessage, []byte(s))
	}
	_, err := c.raw.Write([]byte(s + "\n"))
	return err
}

func behaviours() []behaviour {
	connect := func(c *client) error {
		if err := c.dial(); err != nil {
			return err
		}
		if c.kind == "ws" {
			return c.upgrade("lime")
		}
		return nil
	}
	return []behaviour{
		{name: "garbage-instead-of-an-envelope", closes: true, play: func(c *client) error {
			if err := connect(c); err != nil {
				return err
			}
			return c.sendText("}{ not json")
		}},
		{name: "non-session-envelope-first", closes: true, play: func(c *client) error {
			if err := connect(c); err != nil {
				return err
			}
			return c.sendText(`{"id":"m1","type":"text/plain","content":"hi"}`)
		}},
		{name: "new-session-with-an-id", closes: true, play: func(c *client) error {
			if err := connect(c); err != nil {
				return err
			}
			return c.sendText(`{"state":"new","id":"mine"}`)
		}},
		{name: "unoffered-scheme", closes: true, play: func(c *client) error {
			if err := connect(c); err != nil {
				return err
			}
			if err := c.sendText(`{"state":"new"}`); err != nil {
				return err
			}
			id, err := c.readSessionID()
			if err != nil {
				return err
			}
			return c.sendText(`{"state":"authenticating","id":"` + id + `","from":"alice@cli.test/home","scheme":"plain","authentication":{"password":"eA=="}}`)
		}},
		{name: "silent-after-new", closes: false, play: func(c *client) error {
			if err := connect(c); err != nil {
				return err
			}
			if err := c.sendText(`{"state":"new"}`); err != nil {
				return err
			}
			_, err := c.readSessionID()
			return err
		}},
		{name: "silent-after-connecting", closes: false, play: connect},
		{name: "upgrade-without-the-lime-subprotocol-then-garbage", ws: true, closes: true, play: func(c *client) error {
			if err := c.dial(); err != nil {
				return err
			}
			if err := c.upgrade(""); err != nil {
				return nil // a refused upgrade is fine too, as long as the connection goes away
			}
			_ = c.sendText("}{ not json")
			return nil
		}},
		{name: "upgrade-with-another-subprotocol-then-silence", ws: true, closes: false, play: func(c *client) error {
			if err := c.dial(); err != nil {
				return err
			}
			_ = c.upgrade("chat")
			return nil
		}},
		{name: "http-get-without-upgrade", ws: true, closes: false, play: func(c *client) error {
			if err := c.dial(); err != nil {
				return err
			}
			_, err := c.raw.Write([]byte("GET / HTTP/1.1\r\nHost: x\r\n\r\n"))
			return err
		}},
		{name: "half-an-http-request", ws: true, closes: false, play: func(c *client) error {
			if err := c.dial(); err != nil {
				return err
			}
			_, err := c.raw.Write([]byte("GET / HTTP/1.1\r\nHost: x\r\nUpgrade: websocket\r\n"))
			return err
		}},
		{name: "bytes-that-are-no-http", ws: true, closes: true, play: func(c *client) error {
			if err := c.dial(); err != nil {
				return err
			}
			_, err := c.raw.Write([]byte("\x00\x01\x02 not http at all\r\n\r\n"))
			return err
		}},
	}
}

// readSessionID reads the server's first session envelope and returns its id.
func (c *client) readSessionID() (string, error) {
	var b []byte
	if c.ws != nil {
		_ = c.ws.SetReadDeadline(time.Now().Add(patience))
		_, m, err := c.ws.ReadMessage()
		if err != nil {
			return "", err
		}
		b = m
	} else {
		_ = c.raw.SetReadDeadline(time.Now().Add(patience))
		line, err := bufio.NewReader(c.raw).ReadBytes('\n')
		if err != nil {
			return "", err
		}
		b = line
	}
	var m map[string]interface{}
	if err := json.Unmarshal(b, &m); err != nil {
		return "", err
	}
	id, _ := m["id"].(string)
	return id, nil
}

// goneWithin reports whether the client's socket observes the end of the connection
// (EOF, reset, or an HTTP/WebSocket answer followed by it) within the patience.
func goneWithin(conn net.Conn, d time.Duration) bool {
	_ = conn.SetReadDeadline(time.Now().Add(d))
	buf := make([]byte, 4096)
	for {
		_, err := conn.Read(buf)
		if err == nil {
			continue
		}
		var ne net.Error
		if errors.As(err, &ne) && ne.Timeout() {
			return false
		}
		return true
	}
}

func freePort() (int, error) {
	l, err := net.Listen("tcp", "127.0.0.1:0")
	if err != nil {
		return 0, err
	}
	port := l.Addr().(*net.TCPAddr).Port
	return port, l.Close()
}

// libraryGoroutines lists goroutines that belong to the library or to the HTTP server it runs.
func libraryGoroutines() []string {
	buf := make([]byte, 1<<20)
	n := runtime.Stack(buf, true)
	var out []string
	for _, g := range strings.Split(string(buf[:n]), "\n\n") {
		if strings.Contains(g, "github.com/takenet/lime-go.") || strings.Contains(g, "net/http.(*conn).serve") || strings.Contains(g, "net/http.(*Server).Serve") {
			lines := strings.Split(g, "\n")
			top := ""
			for _, l := range lines[1:] {
				if !strings.HasPrefix(l, "\t") {
					top = strings.TrimSpace(l)
					break
				}
			}
			out = append(out, top)
		}
	}
	return out
}

type result struct {
	Case string `json:"native_case"`
	Sig  string `json:"sig,omitempty"`
	Msg  string `json:"msg,omitempty"`
}

// runCase returns violations as (property, sig, message) triples.
func runCase(kind string, b behaviour) (viol [][3]string, toolErr error) {
	var lst lime.TransportListener
	var addr *net.TCPAddr
	cfg := lime.NewServerConfig()
	cfg.Node = lime.Node{Identity: lime.Identity{Name: "postmaster", Domain: "srv.test"}, Instance: "s1"}
	cfg.SchemeOpts = []lime.AuthenticationScheme{lime.AuthenticationSchemeGuest}
	cfg.EncryptOpts = []lime.SessionEncryption{lime.SessionEncryptionNone}
	est, fin := 0, 0
	cfg.Established = func(string, *lime.ServerChannel) { est++ }
	cfg.Finished = func(string) { fin++ }
	var srv *lime.Server
	served := make(chan error, 1)
	for try := 0; ; try++ {
		port, err := freePort()
		if err != nil {
			return nil, err
		}
		addr = &net.TCPAddr{IP: net.IPv4(127, 0, 0, 1), Port: port}
		if kind == "ws" {
			lst = lime.NewWebsocketTransportListener(nil)
		} else {
			lst = lime.NewTCPTransportListener(nil)
		}
		srv = lime.NewServer(cfg, &lime.EnvelopeMux{}, lime.NewBoundListener(lst, addr))
		go func() { served <- srv.ListenAndServe() }()
		// wait until the port answers (or the serve call gave up: port taken meanwhile)
		ok := false
		for i := 0; i < 200 && !ok; i++ {
			select {
			case err := <-served:
				if try >= 5 {
					return nil, fmt.Errorf("server does not start: %v", err)
				}
				i = 1000
			default:
				if c, err := net.DialTimeout("tcp", addr.String(), 200*time.Millisecond); err == nil {
					_ = c.Close()
					ok = true
				} else {
					time.Sleep(10 * time.Millisecond)
				}
			}
		}
		if ok {
			break
		}
		if try >= 5 {
			return nil, errors.New("server does not start")
		}
	}
	cl := &client{kind: kind, addr: addr.String()}
	if err := b.play(cl); err != nil {
		_ = srv.Close()
		return nil, fmt.Errorf("client script: %v", err)
	}
	caseName := kind + "/" + b.name
	if b.closes {
		if !goneWithin(cl.raw, patience) {
			viol = append(viol, [3]string{"C14", "native:connection-not-released:" + caseName, fmt.Sprintf("real %s listener, client behaviour %q: the handshake cannot succeed but %v later the client's connection is still open", kind, b.name, patience)})
		}
	}
	closeErr := srv.Close()
	select {
	case err := <-served:
		if !errors.Is(err, lime.ErrServerClosed) {
			viol = append(viol, [3]string{"C18", "native:serve-wrong-error:" + caseName, fmt.Sprintf("real %s listener, client behaviour %q: ListenAndServe returned %v after Close (Close returned %v), want ErrServerClosed", kind, b.name, err, closeErr)})
		}
	case <-time.After(patience):
		viol = append(viol, [3]string{"C18", "native:serve-not-returned:" + caseName, fmt.Sprintf("real %s listener, client behaviour %q: ListenAndServe did not return within %v of Close", kind, b.name, patience)})
	}
	if !goneWithin(cl.raw, patience) {
		p := "C18"
		if b.closes {
			p = "C14"
		}
		viol = append(viol, [3]string{p, "native:connection-open-after-close:" + caseName, fmt.Sprintf("real %s listener, client behaviour %q: %v after Server.Close the client's connection is still open", kind, b.name, patience)})
	}
	_ = cl.raw.Close()
	// nothing of the library may keep running
	deadline := time.Now().Add(patience)
	var left []string
	for {
		left = libraryGoroutines()
		if len(left) == 0 || time.Now().After(deadline) {
			break
		}
		time.Sleep(20 * time.Millisecond)
	}
	if len(left) > 0 {
		viol = append(viol, [3]string{"C18", "native:goroutine-left:" + caseName, fmt.Sprintf("real %s listener, client behaviour %q: %v after Server.Close these goroutines are still there: %v", kind, b.name, patience, left)})
	}
	if est != 0 || fin != 0 {
		viol = append(viol, [3]string{"C14", "native:callbacks:" + caseName, fmt.Sprintf("real %s listener, client behaviour %q: Established fired %d times, Finished %d times for a session that never was established", kind, b.name, est, fin)})
	}
	return viol, nil
}

func lastLines(s string, n int) string {
	l := strings.Split(strings.TrimSpace(s), "\n")
	if len(l) > n {
		l = l[len(l)-n:]
	}
	return strings.Join(l, " | ")
}

func main() {
	prop := flag.String("property", "C14", "C14 or C18: which property's violations to report")
	merge := flag.String("merge", "", "evidence file (written by the gosim check) to add the native coverage to")
	replays := flag.String("replays", "", "directory for replay files")
	replay := flag.String("replay", "", "replay one case from a file written by this program")
	known := flag.String("known", "", "known-findings file")
	_ = flag.String("tier", "quick", "ignored: the native cases are the same in both tiers")
	one := flag.String("one", "", "(internal) run this single case in this process")
	flag.Parse()
	log.SetOutput(io.Discard) // the library logs every failed handshake
	knownSigs := map[string]string{}
	if b, err := os.ReadFile(*known); err == nil {
		for _, l := range strings.Split(string(b), "\n") {
			f := strings.Fields(strings.TrimSpace(l))
			if len(f) >= 4 && f[0] == "known:" && f[1] == "property="+*prop && strings.HasPrefix(f[2], "sig=") {
				knownSigs[strings.TrimPrefix(f[2], "sig=")] = strings.Join(f[3:], " ")
			}
		}
	}
	if *one != "" {
		// child mode: run one case in this process and print its violations
		for _, kind := range []string{"tcp", "ws"} {
			for _, b := range behaviours() {
				if kind+"/"+b.name != *one {
					continue
				}
				viol, terr := runCase(kind, b)
				if terr != nil {
					fmt.Fprintf(os.Stderr, "TOOL-ERROR: native case %s: %v\n", *one, terr)
					os.Exit(3)
				}
				for _, v := range viol {
					fmt.Printf("V\t%s\t%s\t%s\n", v[0], v[1], strings.ReplaceAll(v[2], "\n", " "))
				}
				os.Exit(0)
			}
		}
		fmt.Fprintln(os.Stderr, "TOOL-ERROR: unknown native case", *one)
		os.Exit(3)
	}
	only := ""
	if *replay != "" {
		var r result
		b, err := os.ReadFile(*replay)
		if err != nil || json.Unmarshal(b, &r) != nil || r.Case == "" {
			fmt.Fprintln(os.Stderr, "TOOL-ERROR: not a native replay file:", *replay)
			os.Exit(2)
		}
		only = r.Case
	}
	t0 := time.Now()
	var cases []string
	nviol := 0
	for _, kind := range []string{"tcp", "ws"} {
		for _, b := range behaviours() {
			if b.ws && kind != "ws" || b.tcp && kind != "tcp" {
				continue
			}
			name := kind + "/" + b.name
			if only != "" && only != name {
				continue
			}
			cases = append(cases, name)
			// every case runs in a process of its own: a panic inside the library's serving
			// goroutines takes the process down and must be reported, not suffered
			var viol [][3]string
			cmd := exec.Command(os.Args[0], "--property", *prop, "--one", name)
			var stdout, stderr bytes.Buffer
			cmd.Stdout, cmd.Stderr = &stdout, &stderr
			err := cmd.Run()
			for _, l := range strings.Split(stdout.String(), "\n") {
				if f := strings.SplitN(l, "\t", 4); len(f) == 4 && f[0] == "V" {
					viol = append(viol, [3]string{f[1], f[2], f[3]})
				}
			}
			if err != nil {
				first := ""
				for _, l := range strings.Split(stderr.String(), "\n") {
					if strings.HasPrefix(l, "panic:") || strings.HasPrefix(l, "fatal error:") {
						first = l
						break
					}
				}
				if first == "" {
					fmt.Fprintf(os.Stderr, "TOOL-ERROR: native case %s: %v: %s\n", name, err, lastLines(stderr.String(), 5))
					os.Exit(2)
				}
				viol = append(viol, [3]string{*prop, "native:process-crash:" + name, fmt.Sprintf("real %s listener, client behaviour %q: the serving process died: %s", kind, b.name, first)})
			}
			for _, v := range viol {
				if v[0] != *prop {
					continue
				}
				if why, ok := knownSigs[v[1]]; ok {
					fmt.Printf("KNOWN-FINDING: property=%s %s (%s)\n", *prop, v[1], why)
					continue
				}
				nviol++
				path := *replay
				if path == "" && *replays != "" {
					d := filepath.Join(*replays, *prop)
					_ = os.MkdirAll(d, 0o755)
					h := fnv.New32a()
					_, _ = io.WriteString(h, v[1])
					path = filepath.Join(d, fmt.Sprintf("native-%08x.json", h.Sum32()))
					jb, _ := json.MarshalIndent(result{Case: name, Sig: v[1], Msg: v[2]}, "", " ")
					_ = os.WriteFile(path, jb, 0o644)
				}
				fmt.Printf("VIOLATION property=%s replay=%s\n  sig=%s: %s\n", *prop, path, v[1], v[2])
			}
		}
	}
	wall := time.Since(t0).Seconds()
	fmt.Printf("native listeners (%s): cases=%d violations=%d wall=%.1fs\n", *prop, len(cases), nviol, wall)
	if *merge != "" && *replay == "" {
		var ev map[string]interface{}
		if b, err := os.ReadFile(*merge); err == nil && json.Unmarshal(b, &ev) == nil {
			cov, _ := ev["coverage"].(map[string]interface{})
			if cov != nil {
				cov["native_listener_cases"] = map[string]interface{}{"count": len(cases), "cases": cases, "violations": nviol, "wall_s": wall,
					"what": "real tcp and WebSocket listeners on loopback sockets, one scripted client per case, then Server.Close; oracle: the client's socket sees the connection end, ListenAndServe returns ErrServerClosed, no library or net/http goroutine remains, no callback fired; one (OS) schedule per case"}
			}
			if as, ok := ev["assumptions"].([]interface{}); ok {
				ev["assumptions"] = append(as, "native listener sub-check: inputs are enumerated, schedules are not (real sockets); an observation that does not arrive within 20 s counts as never")
			}
			if v, ok := ev["violations"].(float64); ok {
				ev["violations"] = int(v) + nviol
			}
			if w, ok := ev["wall_s"].(float64); ok {
				ev["wall_s"] = w + wall
			}
			if b, err := json.MarshalIndent(ev, "", " "); err == nil {
				_ = os.WriteFile(*merge, b, 0o644)
			}
		}
	}
	if nviol > 0 {
		os.Exit(1)
	}
}
