module verif

go 1.23

require (
	github.com/google/uuid v1.3.0
	github.com/gorilla/websocket v1.4.2
	github.com/takenet/lime-go v0.0.0
	golang.org/x/tools v0.29.0
)

require (
	go.uber.org/atomic v1.9.0 // indirect
	go.uber.org/multierr v1.8.0 // indirect
	golang.org/x/mod v0.22.0 // indirect
	golang.org/x/sync v0.10.0 // indirect
)

replace github.com/takenet/lime-go => /repo
