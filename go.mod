module verif

go 1.23

require (
	github.com/takenet/lime-go v0.0.0
	golang.org/x/tools v0.29.0
)

replace github.com/takenet/lime-go => /repo
