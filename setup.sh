#!/bin/bash
# Builds the framework from files on disk only (offline) and warms the build cache.
set -e
cd /verif
export GOFLAGS=-mod=mod GOPROXY=off GOSUMDB=off GOTOOLCHAIN=local GODEBUG=goindex=0
export GOCACHE=/verif/.cache/go-build
mkdir -p bin evidence .cache
go build -o bin/gosim-rewrite ./cmd/gosim-rewrite
go vet ./gosim/rt/ >/dev/null 2>&1 || true
go test -count=1 ./gosim/rt/ >/dev/null
# warm the cache: native lime with hooks, and one instrumented build
(cd /repo && go build -tags verif ./... )
S=$(mktemp -d "${TMPDIR:-/tmp}/verif-setup.XXXXXX")
trap 'rm -rf "$S"' EXIT
./bin/gosim-rewrite -out "$S/rw" github.com/takenet/lime-go golang.org/x/sync/errgroup verif/scen/lib verif/scen/hsrv verif/scen/c20 >/dev/null
go build -tags verif -overlay "$S/rw/overlay.json" -o "$S/warm.bin" ./scen/c20
for d in seqx/*/; do [ -d "$d" ] && go build -tags verif -o "$S/warm2.bin" "./$d"; done
echo setup ok
