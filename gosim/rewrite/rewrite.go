// Package rewrite turns Go packages that use native concurrency (go, chan,
// select, sync, context, time) into packages that run on the gosim scheduler.
// The transformation is purely local and type-directed; anything it does not
// understand is reported as unsupported (a tool error, never a verdict).
package rewrite

import (
	"bytes"
	"fmt"
	"go/ast"
	"go/printer"
	"go/token"
	"go/types"
	"os"
	"path/filepath"
	"sort"
	"strconv"
	"strings"

	"golang.org/x/tools/go/ast/astutil"
	"golang.org/x/tools/go/packages"
)

const (
	rtPath   = "verif/gosim/rt"
	vctxPath = "verif/gosim/vctx"
	rtName   = "__rt"
	vctxName = "__vctx"
)

var importSubst = map[string]string{
	"sync":    "verif/gosim/vsync",
	"context": "verif/gosim/vctx",
	"time":    "verif/gosim/vtime",
	// every atomic operation becomes a visible step of the scheduler
	"sync/atomic": "verif/gosim/vatomic",
}

var forbiddenImports = map[string]string{
	"os/signal": "signals are not modelled",
}

// Result of rewriting.
type Result struct {
	Overlay  map[string]string // original file -> rewritten file
	Files    int
	Warnings []string
}

// Unsupported is returned for constructs the rewriter cannot model.
type Unsupported struct{ Msgs []string }

func (u *Unsupported) Error() string {
	return "REWRITE-UNSUPPORTED:\n  " + strings.Join(u.Msgs, "\n  ")
}

// Run loads patterns (from dir, with build tags) and writes rewritten copies
// of every Go file of those packages under outDir.
func Run(dir string, tags string, patterns []string, outDir string) (*Result, error) {
	cfg := &packages.Config{
		Mode: packages.NeedName | packages.NeedFiles | packages.NeedCompiledGoFiles | packages.NeedSyntax |
			packages.NeedTypes | packages.NeedTypesInfo | packages.NeedImports | packages.NeedDeps | packages.NeedModule,
		Dir:        dir,
		BuildFlags: []string{"-tags=" + tags},
		Env:        os.Environ(),
	}
	pkgs, err := packages.Load(cfg, patterns...)
	if err != nil {
		return nil, fmt.Errorf("load: %w", err)
	}
	var loadErrs []string
	packages.Visit(pkgs, nil, func(p *packages.Package) {
		for _, e := range p.Errors {
			loadErrs = append(loadErrs, e.Error())
		}
	})
	if len(loadErrs) > 0 {
		return nil, fmt.Errorf("load errors:\n  %s", strings.Join(loadErrs, "\n  "))
	}
	rewritten := map[string]bool{}
	for _, p := range pkgs {
		rewritten[p.PkgPath] = true
	}
	for _, p := range []string{rtPath, vctxPath, "verif/gosim/vsync", "verif/gosim/vtime", "verif/gosim/vatomic", "sync", "sync/atomic", "context", "time"} {
		rewritten[p] = true
	}
	res := &Result{Overlay: map[string]string{}}
	var unsup []string
	for _, p := range pkgs {
		for i, f := range p.Syntax {
			orig := p.CompiledGoFiles[i]
			if !strings.HasSuffix(orig, ".go") {
				continue
			}
			rw := &rewriter{pkg: p, file: f, fset: p.Fset, info: p.TypesInfo, rewritten: rewritten}
			src, err := rw.rewriteFile()
			unsup = append(unsup, rw.unsupported...)
			res.Warnings = append(res.Warnings, rw.warnings...)
			if err != nil {
				return nil, fmt.Errorf("%s: %w", orig, err)
			}
			out := filepath.Join(outDir, strings.ReplaceAll(p.PkgPath, "/", "_"), filepath.Base(orig))
			if err := os.MkdirAll(filepath.Dir(out), 0o755); err != nil {
				return nil, err
			}
			if err := os.WriteFile(out, src, 0o644); err != nil {
				return nil, err
			}
			res.Overlay[orig] = out
			res.Files++
		}
	}
	if len(unsup) > 0 {
		sort.Strings(unsup)
		return res, &Unsupported{Msgs: unsup}
	}
	return res, nil
}

type rewriter struct {
	pkg       *packages.Package
	file      *ast.File
	fset      *token.FileSet
	info      *types.Info
	rewritten map[string]bool

	unsupported []string
	warnings    []string
	needRT      bool
	needVctx    bool
	tmp         int

	// decisions taken in the typed pre-pass, keyed by original node
	makeChan  map[*ast.CallExpr]bool
	closeCall map[*ast.CallExpr]bool
	lenCall   map[*ast.CallExpr]string // "Len" / "Cap"
	ctxArgs   map[*ast.CallExpr][]int
	rangeChan map[*ast.RangeStmt]bool
	// generated nodes
	genRecv map[*ast.CallExpr]bool
	genSend map[*ast.ExprStmt]bool
	labeled map[ast.Stmt]*ast.LabeledStmt
	goOwner map[*ast.GoStmt]string
}

func (r *rewriter) unsup(n ast.Node, format string, a ...interface{}) {
	r.unsupported = append(r.unsupported, fmt.Sprintf("%s: %s", r.fset.Position(n.Pos()), fmt.Sprintf(format, a...)))
}

func isChan(t types.Type) bool {
	if t == nil {
		return false
	}
	_, ok := t.Underlying().(*types.Chan)
	return ok
}

func isStdContext(t types.Type) bool {
	n, ok := t.(*types.Named)
	if !ok {
		return false
	}
	o := n.Obj()
	return o != nil && o.Pkg() != nil && o.Pkg().Path() == "context" && o.Name() == "Context"
}

// mentionsSim reports whether a type involves a channel or a context (i.e.
// something whose representation changes under rewriting).
func mentionsSim(t types.Type, seen map[types.Type]bool) bool {
	if t == nil || seen[t] {
		return false
	}
	seen[t] = true
	switch x := t.(type) {
	case *types.Chan:
		return true
	case *types.Named:
		if isStdContext(x) {
			return true
		}
		if o := x.Obj(); o != nil && o.Pkg() != nil {
			switch o.Pkg().Path() {
			case "sync", "time":
				return o.Pkg().Path() == "sync"
			}
		}
		return false // named types of other packages keep their identity
	case *types.Pointer:
		return mentionsSim(x.Elem(), seen)
	case *types.Slice:
		return mentionsSim(x.Elem(), seen)
	case *types.Array:
		return mentionsSim(x.Elem(), seen)
	case *types.Map:
		return mentionsSim(x.Key(), seen) || mentionsSim(x.Elem(), seen)
	case *types.Signature:
		for i := 0; i < x.Params().Len(); i++ {
			if mentionsSim(x.Params().At(i).Type(), seen) {
				return true
			}
		}
		for i := 0; i < x.Results().Len(); i++ {
			if mentionsSim(x.Results().At(i).Type(), seen) {
				return true
			}
		}
	case *types.Struct:
		for i := 0; i < x.NumFields(); i++ {
			if mentionsSim(x.Field(i).Type(), seen) {
				return true
			}
		}
	}
	return false
}

// calleePkg returns the package that declares the called function/method, or
// nil when it cannot be determined (function values, builtins, conversions).
func (r *rewriter) calleePkg(call *ast.CallExpr) *types.Package {
	fun := ast.Unparen(call.Fun)
	switch f := fun.(type) {
	case *ast.Ident:
		if o, ok := r.info.Uses[f].(*types.Func); ok {
			return o.Pkg()
		}
	case *ast.SelectorExpr:
		if sel, ok := r.info.Selections[f]; ok {
			if fn, ok := sel.Obj().(*types.Func); ok {
				return fn.Pkg()
			}
			return nil
		}
		if o, ok := r.info.Uses[f.Sel].(*types.Func); ok {
			return o.Pkg()
		}
	}
	return nil
}

func (r *rewriter) prepass() {
	r.makeChan = map[*ast.CallExpr]bool{}
	r.closeCall = map[*ast.CallExpr]bool{}
	r.lenCall = map[*ast.CallExpr]string{}
	r.ctxArgs = map[*ast.CallExpr][]int{}
	r.rangeChan = map[*ast.RangeStmt]bool{}
	r.genRecv = map[*ast.CallExpr]bool{}
	r.genSend = map[*ast.ExprStmt]bool{}
	r.labeled = map[ast.Stmt]*ast.LabeledStmt{}
	r.goOwner = map[*ast.GoStmt]string{}
	for _, d := range r.file.Decls {
		if fd, ok := d.(*ast.FuncDecl); ok && fd.Body != nil {
			name := fd.Name.Name
			ast.Inspect(fd.Body, func(n ast.Node) bool {
				if g, ok := n.(*ast.GoStmt); ok {
					r.goOwner[g] = name
				}
				return true
			})
		}
	}

	for _, imp := range r.file.Imports {
		p, _ := strconv.Unquote(imp.Path.Value)
		if why, bad := forbiddenImports[p]; bad {
			r.unsup(imp, "import %q: %s", p, why)
		}
	}
	ast.Inspect(r.file, func(n ast.Node) bool {
		switch x := n.(type) {
		case *ast.TypeSpec:
			if _, ok := x.Type.(*ast.ChanType); ok {
				r.unsup(x, "named channel type %s", x.Name.Name)
			}
		case *ast.LabeledStmt:
			r.labeled[x.Stmt] = x
		case *ast.RangeStmt:
			if isChan(r.info.TypeOf(x.X)) {
				r.rangeChan[x] = true
			}
			if _, ok := r.info.TypeOf(x.X).Underlying().(*types.Map); ok {
				r.warnings = append(r.warnings, fmt.Sprintf("%s: range over map (iteration order is not controlled)", r.fset.Position(x.Pos())))
			}
		case *ast.CallExpr:
			r.prepassCall(x)
		case *ast.SelectorExpr:
			// sync.Cond, sync.Map, sync.Pool etc. are not modelled
			if id, ok := x.X.(*ast.Ident); ok {
				if pn, ok := r.info.Uses[id].(*types.PkgName); ok && pn.Imported().Path() == "sync" {
					switch x.Sel.Name {
					case "Mutex", "RWMutex", "Once", "WaitGroup", "Locker", "Pool":
					default:
						r.unsup(x, "sync.%s is not modelled", x.Sel.Name)
					}
				}
				if pn, ok := r.info.Uses[id].(*types.PkgName); ok && pn.Imported().Path() == "reflect" {
					switch x.Sel.Name {
					case "Select", "ChanOf", "MakeChan":
						r.unsup(x, "reflect.%s is not modelled", x.Sel.Name)
					}
				}
			}
		}
		return true
	})
}

func (r *rewriter) prepassCall(call *ast.CallExpr) {
	if id, ok := ast.Unparen(call.Fun).(*ast.Ident); ok {
		if b, ok := r.info.Uses[id].(*types.Builtin); ok {
			switch b.Name() {
			case "make":
				if len(call.Args) > 0 && isChan(r.info.TypeOf(call.Args[0])) {
					if _, ok := call.Args[0].(*ast.ChanType); !ok {
						r.unsup(call, "make of a named channel type")
					}
					r.makeChan[call] = true
				}
			case "close":
				r.closeCall[call] = true
			case "len", "cap":
				if len(call.Args) == 1 && isChan(r.info.TypeOf(call.Args[0])) {
					r.lenCall[call] = strings.Title(b.Name())
				}
			}
			return
		}
	}
	// conversions are not calls
	if tv, ok := r.info.Types[call.Fun]; ok && tv.IsType() {
		return
	}
	pkg := r.calleePkg(call)
	if pkg == nil || r.rewritten[pkg.Path()] {
		return
	}
	// a call into code that is not rewritten
	sig, _ := r.info.TypeOf(call.Fun).(*types.Signature)
	if sig == nil {
		return
	}
	for i, a := range call.Args {
		at := r.info.TypeOf(a)
		var pt types.Type
		switch {
		case sig.Variadic() && i >= sig.Params().Len()-1:
			pt = sig.Params().At(sig.Params().Len() - 1).Type()
			if s, ok := pt.(*types.Slice); ok && call.Ellipsis == token.NoPos {
				pt = s.Elem()
			}
		case i < sig.Params().Len():
			pt = sig.Params().At(i).Type()
		}
		if pt != nil && isStdContext(pt) {
			r.ctxArgs[call] = append(r.ctxArgs[call], i)
			continue
		}
		if at == nil {
			continue
		}
		if isChan(at) {
			r.unsup(a, "channel passed to %s.%s, which is not rewritten", pkg.Path(), exprString(call.Fun))
			continue
		}
		if isStdContext(at) {
			r.unsup(a, "context passed as %s to %s (not rewritten)", pt, pkg.Path())
			continue
		}
		if _, isIface := pt.Underlying().(*types.Interface); !isIface || isEmptyInterface(pt) {
			if mentionsSim(at, map[types.Type]bool{}) {
				if _, named := at.(*types.Named); !named {
					r.unsup(a, "value of type %s (involves channel/context/sync) passed to %s, which is not rewritten", at, pkg.Path())
				}
			}
		}
	}
}

func isEmptyInterface(t types.Type) bool {
	i, ok := t.Underlying().(*types.Interface)
	return ok && i.NumMethods() == 0
}

func exprString(e ast.Expr) string {
	var b bytes.Buffer
	printer.Fprint(&b, token.NewFileSet(), e)
	return b.String()
}

func (r *rewriter) rtSel(name string) ast.Expr {
	r.needRT = true
	return &ast.SelectorExpr{X: ast.NewIdent(rtName), Sel: ast.NewIdent(name)}
}

func (r *rewriter) fresh(prefix string) *ast.Ident {
	r.tmp++
	return ast.NewIdent(fmt.Sprintf("__%s%d", prefix, r.tmp))
}

func method(x ast.Expr, name string, args ...ast.Expr) *ast.CallExpr {
	return &ast.CallExpr{Fun: &ast.SelectorExpr{X: &ast.ParenExpr{X: x}, Sel: ast.NewIdent(name)}, Args: args}
}

func define(lhs ast.Expr, rhs ast.Expr) ast.Stmt {
	return &ast.AssignStmt{Lhs: []ast.Expr{lhs}, Tok: token.DEFINE, Rhs: []ast.Expr{rhs}}
}

func (r *rewriter) rewriteFile() ([]byte, error) {
	r.prepass()

	// imports
	for _, imp := range r.file.Imports {
		p, _ := strconv.Unquote(imp.Path.Value)
		if np, ok := importSubst[p]; ok {
			if imp.Name == nil {
				imp.Name = ast.NewIdent(p[strings.LastIndex(p, "/")+1:])
			}
			imp.Path = &ast.BasicLit{Kind: token.STRING, Value: strconv.Quote(np)}
			imp.EndPos = token.NoPos
		}
	}

	astutil.Apply(r.file, nil, func(c *astutil.Cursor) bool {
		switch n := c.Node().(type) {
		case *ast.ChanType:
			c.Replace(&ast.StarExpr{X: &ast.IndexExpr{X: r.rtSel("Chan"), Index: n.Value}})
		case *ast.UnaryExpr:
			if n.Op == token.ARROW {
				call := method(n.X, "Recv")
				r.genRecv[call] = true
				c.Replace(call)
			}
		case *ast.SendStmt:
			st := &ast.ExprStmt{X: method(n.Chan, "Send", n.Value)}
			r.genSend[st] = true
			c.Replace(st)
		case *ast.AssignStmt:
			if len(n.Lhs) == 2 && len(n.Rhs) == 1 {
				if call, ok := n.Rhs[0].(*ast.CallExpr); ok && r.genRecv[call] {
					call.Fun.(*ast.SelectorExpr).Sel = ast.NewIdent("Recv2")
				}
			}
		case *ast.ValueSpec:
			if len(n.Names) == 2 && len(n.Values) == 1 {
				if call, ok := n.Values[0].(*ast.CallExpr); ok && r.genRecv[call] {
					call.Fun.(*ast.SelectorExpr).Sel = ast.NewIdent("Recv2")
				}
			}
		case *ast.CallExpr:
			r.postCall(c, n)
		case *ast.GoStmt:
			c.Replace(r.rewriteGo(n))
		case *ast.SelectStmt:
			r.rewriteSelect(c, n)
		case *ast.RangeStmt:
			if r.rangeChan[n] {
				r.rewriteRange(c, n)
			}
		}
		return true
	})

	if r.needRT {
		astutil.AddNamedImport(r.fset, r.file, rtName, rtPath)
	}
	if r.needVctx {
		astutil.AddNamedImport(r.fset, r.file, vctxName, vctxPath)
	}

	// drop all comments (the printer can misplace them around generated
	// nodes); build constraints were already applied by the loader
	r.file.Comments = nil
	r.file.Doc = nil
	ast.Inspect(r.file, func(n ast.Node) bool {
		switch x := n.(type) {
		case *ast.GenDecl:
			x.Doc = nil
		case *ast.FuncDecl:
			x.Doc = nil
		case *ast.TypeSpec:
			x.Doc, x.Comment = nil, nil
		case *ast.ValueSpec:
			x.Doc, x.Comment = nil, nil
		case *ast.ImportSpec:
			x.Doc, x.Comment = nil, nil
		case *ast.Field:
			x.Doc, x.Comment = nil, nil
		}
		return true
	})
	var buf bytes.Buffer
	// Generics need language version 1.18+: raise it per file for old modules
	// (go1.21 keeps the pre-1.22 loop-variable semantics such modules were written
	// for); modules that already are at 1.21 or later keep their own version.
	if r.needsLangBump() {
		buf.WriteString("//go:build go1.21\n\n")
	}
	buf.WriteString("// Code generated by gosim/rewrite from " + filepath.Base(r.fset.Position(r.file.Pos()).Filename) + "; DO NOT EDIT.\n\n")
	if err := (&printer.Config{Mode: printer.UseSpaces | printer.TabIndent, Tabwidth: 8}).Fprint(&buf, r.fset, r.file); err != nil {
		return nil, err
	}
	return buf.Bytes(), nil
}

func (r *rewriter) needsLangBump() bool {
	m := r.pkg.Module
	if m == nil || m.GoVersion == "" {
		return true
	}
	var maj, min int
	fmt.Sscanf(m.GoVersion, "%d.%d", &maj, &min)
	return maj == 1 && min < 21
}

func (r *rewriter) postCall(c *astutil.Cursor, n *ast.CallExpr) {
	switch {
	case r.makeChan[n]:
		st, ok := n.Args[0].(*ast.StarExpr)
		if !ok {
			r.unsup(n, "make(chan) with an unexpected type expression")
			return
		}
		elem := st.X.(*ast.IndexExpr).Index
		var size ast.Expr = &ast.BasicLit{Kind: token.INT, Value: "0"}
		if len(n.Args) > 1 {
			size = n.Args[1]
		}
		c.Replace(&ast.CallExpr{Fun: &ast.IndexExpr{X: r.rtSel("MakeChan"), Index: elem}, Args: []ast.Expr{size}})
	case r.closeCall[n]:
		c.Replace(method(n.Args[0], "Close"))
	case r.lenCall[n] != "":
		c.Replace(method(n.Args[0], r.lenCall[n]))
	case len(r.ctxArgs[n]) > 0:
		for _, i := range r.ctxArgs[n] {
			r.needVctx = true
			n.Args[i] = &ast.CallExpr{Fun: &ast.SelectorExpr{X: ast.NewIdent(vctxName), Sel: ast.NewIdent("Native")}, Args: []ast.Expr{n.Args[i]}}
		}
	}
}

// rewriteGo: evaluate the function value and the arguments at the go
// statement, then start a simulated goroutine.
func (r *rewriter) rewriteGo(n *ast.GoStmt) ast.Stmt {
	call := n.Call
	name := exprString(call.Fun)
	if _, ok := call.Fun.(*ast.FuncLit); ok {
		name = r.goOwner[n] + ".func"
	}
	if i := strings.LastIndex(name, "."); i >= 0 && !strings.HasSuffix(name, ".func") {
		name = name[i+1:]
	}
	nameLit := &ast.BasicLit{Kind: token.STRING, Value: strconv.Quote(name)}
	if fl, ok := call.Fun.(*ast.FuncLit); ok && len(call.Args) == 0 {
		return &ast.ExprStmt{X: &ast.CallExpr{Fun: r.rtSel("GoNamed"), Args: []ast.Expr{nameLit, fl}}}
	}
	var stmts []ast.Stmt
	f := r.fresh("f")
	stmts = append(stmts, define(f, call.Fun))
	var args []ast.Expr
	for _, a := range call.Args {
		t := r.fresh("a")
		stmts = append(stmts, define(t, a))
		args = append(args, t)
	}
	inner := &ast.CallExpr{Fun: f, Args: args, Ellipsis: call.Ellipsis}
	if call.Ellipsis != token.NoPos {
		inner.Ellipsis = 1
	}
	lit := &ast.FuncLit{Type: &ast.FuncType{Params: &ast.FieldList{}}, Body: &ast.BlockStmt{List: []ast.Stmt{&ast.ExprStmt{X: inner}}}}
	stmts = append(stmts, &ast.ExprStmt{X: &ast.CallExpr{Fun: r.rtSel("GoNamed"), Args: []ast.Expr{nameLit, lit}}})
	return &ast.BlockStmt{List: stmts}
}

func unparenX(call *ast.CallExpr) ast.Expr {
	return call.Fun.(*ast.SelectorExpr).X.(*ast.ParenExpr).X
}

func (r *rewriter) rewriteSelect(c *astutil.Cursor, n *ast.SelectStmt) {
	var pre []ast.Stmt
	var caseArgs []ast.Expr
	var clauses []ast.Stmt
	hasDefault := false
	idx := 0
	for _, cl := range n.Body.List {
		cc := cl.(*ast.CommClause)
		if cc.Comm == nil {
			hasDefault = true
			clauses = append(clauses, &ast.CaseClause{List: nil, Body: cc.Body})
			continue
		}
		k := r.fresh("k")
		var body []ast.Stmt
		switch s := cc.Comm.(type) {
		case *ast.ExprStmt:
			call, ok := s.X.(*ast.CallExpr)
			switch {
			case r.genSend[s]:
				call = s.X.(*ast.CallExpr)
				pre = append(pre, define(k, method(unparenX(call), "SendCase", call.Args[0])))
			case ok && r.genRecv[call]:
				pre = append(pre, define(k, method(unparenX(call), "RecvCase")))
			default:
				r.unsup(n, "select: unrecognised communication clause")
				return
			}
		case *ast.AssignStmt:
			call, ok := s.Rhs[0].(*ast.CallExpr)
			if !ok || !r.genRecv[call] {
				r.unsup(n, "select: unrecognised receive clause")
				return
			}
			pre = append(pre, define(k, method(unparenX(call), "RecvCase")))
			rhs := []ast.Expr{&ast.SelectorExpr{X: k, Sel: ast.NewIdent("Val")}}
			if len(s.Lhs) == 2 {
				rhs = append(rhs, &ast.SelectorExpr{X: k, Sel: ast.NewIdent("Ok")})
			}
			body = append(body, &ast.AssignStmt{Lhs: s.Lhs, Tok: s.Tok, Rhs: rhs})
			if s.Tok == token.DEFINE {
				// keep "declared and not used" semantics identical: a name the
				// original body used is used here too; blank uses are harmless
				for _, l := range s.Lhs {
					if id, ok := l.(*ast.Ident); ok && id.Name != "_" {
						body = append(body, &ast.AssignStmt{Lhs: []ast.Expr{ast.NewIdent("_")}, Tok: token.ASSIGN, Rhs: []ast.Expr{ast.NewIdent(id.Name)}})
					}
				}
			}
		default:
			r.unsup(n, "select: unrecognised clause")
			return
		}
		caseArgs = append(caseArgs, k)
		body = append(body, cc.Body...)
		clauses = append(clauses, &ast.CaseClause{List: []ast.Expr{&ast.BasicLit{Kind: token.INT, Value: strconv.Itoa(idx)}}, Body: body})
		idx++
	}
	def := "false"
	if hasDefault {
		def = "true"
	} else {
		// keeps the switch a terminating statement whenever the select was one
		clauses = append(clauses, &ast.CaseClause{List: nil, Body: []ast.Stmt{&ast.ExprStmt{X: &ast.CallExpr{Fun: ast.NewIdent("panic"), Args: []ast.Expr{&ast.BasicLit{Kind: token.STRING, Value: `"gosim: unreachable select arm"`}}}}}})
	}
	args := append([]ast.Expr{ast.NewIdent(def)}, caseArgs...)
	var sw ast.Stmt = &ast.SwitchStmt{Tag: &ast.CallExpr{Fun: r.rtSel("Select"), Args: args}, Body: &ast.BlockStmt{List: clauses}}
	if c.Name() == "Stmt" {
		if _, ok := c.Parent().(*ast.LabeledStmt); ok {
			// keep the label on the switch so that `break L` still works
			r.unsup(n, "labeled select")
			return
		}
	}
	c.Replace(&ast.BlockStmt{List: append(pre, sw)})
}

func (r *rewriter) rewriteRange(c *astutil.Cursor, n *ast.RangeStmt) {
	if _, ok := c.Parent().(*ast.LabeledStmt); ok {
		r.unsup(n, "labeled range over channel")
		return
	}
	ch := r.fresh("c")
	ok := r.fresh("ok")
	var recv ast.Stmt
	call := method(ch, "Recv2")
	if n.Key != nil {
		recv = &ast.AssignStmt{Lhs: []ast.Expr{n.Key, ok}, Tok: token.DEFINE, Rhs: []ast.Expr{call}}
		if n.Tok == token.ASSIGN {
			tmp := r.fresh("v")
			recv = &ast.BlockStmt{List: []ast.Stmt{}}
			_ = tmp
			r.unsup(n, "range over channel with = assignment")
			return
		}
	} else {
		recv = &ast.AssignStmt{Lhs: []ast.Expr{ast.NewIdent("_"), ok}, Tok: token.DEFINE, Rhs: []ast.Expr{call}}
	}
	brk := &ast.IfStmt{Cond: &ast.UnaryExpr{Op: token.NOT, X: ok}, Body: &ast.BlockStmt{List: []ast.Stmt{&ast.BranchStmt{Tok: token.BREAK}}}}
	body := append([]ast.Stmt{recv, brk}, n.Body.List...)
	loop := &ast.ForStmt{Body: &ast.BlockStmt{List: body}}
	c.Replace(&ast.BlockStmt{List: []ast.Stmt{define(ch, n.X), loop}})
}
