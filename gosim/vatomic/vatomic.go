// Package vatomic mirrors package sync/atomic on top of the gosim scheduler: every
// operation is a visible step (a scheduling point) on one shared "atomics" object, so
// that interleavings around lock-free code are explored like those around locks. The
// rewriter substitutes it for "sync/atomic" by import path.
package vatomic

import (
	"sync/atomic"
	"unsafe"

	"verif/gosim/rt"
)

var (
	obj *rt.Obj
	ep  uint64
)

func o() *rt.Obj {
	if obj == nil || ep != rt.Epoch() {
		obj, ep = rt.NewObj("atomic"), rt.Epoch()
	}
	return obj
}

func step(tag string, write bool, f func() uint64) {
	ob := o()
	rt.Do(ob, tag, nil, func() { rt.Event(ob, tag, f(), write) })
}

func b2u(b bool) uint64 {
	if b {
		return 1
	}
	return 0
}

func LoadInt32(addr *int32) (v int32) {
	step("atomic.Load", false, func() uint64 { v = atomic.LoadInt32(addr); return uint64(v) })
	return
}
func StoreInt32(addr *int32, val int32) {
	step("atomic.Store", true, func() uint64 { atomic.StoreInt32(addr, val); return uint64(val) })
}
func AddInt32(addr *int32, delta int32) (v int32) {
	step("atomic.Add", true, func() uint64 { v = atomic.AddInt32(addr, delta); return uint64(v) })
	return
}
func SwapInt32(addr *int32, val int32) (old int32) {
	step("atomic.Swap", true, func() uint64 { old = atomic.SwapInt32(addr, val); return uint64(old) })
	return
}
func CompareAndSwapInt32(addr *int32, old, val int32) (ok bool) {
	step("atomic.CAS", true, func() uint64 { ok = atomic.CompareAndSwapInt32(addr, old, val); return b2u(ok) })
	return
}

func LoadInt64(addr *int64) (v int64) {
	step("atomic.Load", false, func() uint64 { v = atomic.LoadInt64(addr); return uint64(v) })
	return
}
func StoreInt64(addr *int64, val int64) {
	step("atomic.Store", true, func() uint64 { atomic.StoreInt64(addr, val); return uint64(val) })
}
func AddInt64(addr *int64, delta int64) (v int64) {
	step("atomic.Add", true, func() uint64 { v = atomic.AddInt64(addr, delta); return uint64(v) })
	return
}
func SwapInt64(addr *int64, val int64) (old int64) {
	step("atomic.Swap", true, func() uint64 { old = atomic.SwapInt64(addr, val); return uint64(old) })
	return
}
func CompareAndSwapInt64(addr *int64, old, val int64) (ok bool) {
	step("atomic.CAS", true, func() uint64 { ok = atomic.CompareAndSwapInt64(addr, old, val); return b2u(ok) })
	return
}

func LoadUint32(addr *uint32) (v uint32) {
	step("atomic.Load", false, func() uint64 { v = atomic.LoadUint32(addr); return uint64(v) })
	return
}
func StoreUint32(addr *uint32, val uint32) {
	step("atomic.Store", true, func() uint64 { atomic.StoreUint32(addr, val); return uint64(val) })
}
func AddUint32(addr *uint32, delta uint32) (v uint32) {
	step("atomic.Add", true, func() uint64 { v = atomic.AddUint32(addr, delta); return uint64(v) })
	return
}
func SwapUint32(addr *uint32, val uint32) (old uint32) {
	step("atomic.Swap", true, func() uint64 { old = atomic.SwapUint32(addr, val); return uint64(old) })
	return
}
func CompareAndSwapUint32(addr *uint32, old, val uint32) (ok bool) {
	step("atomic.CAS", true, func() uint64 { ok = atomic.CompareAndSwapUint32(addr, old, val); return b2u(ok) })
	return
}

func LoadUint64(addr *uint64) (v uint64) {
	step("atomic.Load", false, func() uint64 { v = atomic.LoadUint64(addr); return uint64(v) })
	return
}
func StoreUint64(addr *uint64, val uint64) {
	step("atomic.Store", true, func() uint64 { atomic.StoreUint64(addr, val); return uint64(val) })
}
func AddUint64(addr *uint64, delta uint64) (v uint64) {
	step("atomic.Add", true, func() uint64 { v = atomic.AddUint64(addr, delta); return uint64(v) })
	return
}
func SwapUint64(addr *uint64, val uint64) (old uint64) {
	step("atomic.Swap", true, func() uint64 { old = atomic.SwapUint64(addr, val); return uint64(old) })
	return
}
func CompareAndSwapUint64(addr *uint64, old, val uint64) (ok bool) {
	step("atomic.CAS", true, func() uint64 { ok = atomic.CompareAndSwapUint64(addr, old, val); return b2u(ok) })
	return
}

func LoadUintptr(addr *uintptr) (v uintptr) {
	step("atomic.Load", false, func() uint64 { v = atomic.LoadUintptr(addr); return uint64(v) })
	return
}
func StoreUintptr(addr *uintptr, val uintptr) {
	step("atomic.Store", true, func() uint64 { atomic.StoreUintptr(addr, val); return uint64(val) })
}
func AddUintptr(addr *uintptr, delta uintptr) (v uintptr) {
	step("atomic.Add", true, func() uint64 { v = atomic.AddUintptr(addr, delta); return uint64(v) })
	return
}
func SwapUintptr(addr *uintptr, val uintptr) (old uintptr) {
	step("atomic.Swap", true, func() uint64 { old = atomic.SwapUintptr(addr, val); return uint64(old) })
	return
}
func CompareAndSwapUintptr(addr *uintptr, old, val uintptr) (ok bool) {
	step("atomic.CAS", true, func() uint64 { ok = atomic.CompareAndSwapUintptr(addr, old, val); return b2u(ok) })
	return
}

func LoadPointer(addr *unsafe.Pointer) (v unsafe.Pointer) {
	step("atomic.Load", false, func() uint64 { v = atomic.LoadPointer(addr); return 0 })
	return
}
func StorePointer(addr *unsafe.Pointer, val unsafe.Pointer) {
	step("atomic.Store", true, func() uint64 { atomic.StorePointer(addr, val); return 0 })
}
func SwapPointer(addr *unsafe.Pointer, val unsafe.Pointer) (old unsafe.Pointer) {
	step("atomic.Swap", true, func() uint64 { old = atomic.SwapPointer(addr, val); return 0 })
	return
}
func CompareAndSwapPointer(addr *unsafe.Pointer, old, val unsafe.Pointer) (ok bool) {
	step("atomic.CAS", true, func() uint64 { ok = atomic.CompareAndSwapPointer(addr, old, val); return b2u(ok) })
	return
}

// Int32 mirrors atomic.Int32.
type Int32 struct{ v int32 }

func (x *Int32) Load() int32                        { return LoadInt32(&x.v) }
func (x *Int32) Store(val int32)                    { StoreInt32(&x.v, val) }
func (x *Int32) Add(delta int32) int32              { return AddInt32(&x.v, delta) }
func (x *Int32) Swap(val int32) int32               { return SwapInt32(&x.v, val) }
func (x *Int32) CompareAndSwap(old, val int32) bool { return CompareAndSwapInt32(&x.v, old, val) }

// Int64 mirrors atomic.Int64.
type Int64 struct{ v int64 }

func (x *Int64) Load() int64                        { return LoadInt64(&x.v) }
func (x *Int64) Store(val int64)                    { StoreInt64(&x.v, val) }
func (x *Int64) Add(delta int64) int64              { return AddInt64(&x.v, delta) }
func (x *Int64) Swap(val int64) int64               { return SwapInt64(&x.v, val) }
func (x *Int64) CompareAndSwap(old, val int64) bool { return CompareAndSwapInt64(&x.v, old, val) }

// Uint32 mirrors atomic.Uint32.
type Uint32 struct{ v uint32 }

func (x *Uint32) Load() uint32                        { return LoadUint32(&x.v) }
func (x *Uint32) Store(val uint32)                    { StoreUint32(&x.v, val) }
func (x *Uint32) Add(delta uint32) uint32             { return AddUint32(&x.v, delta) }
func (x *Uint32) Swap(val uint32) uint32              { return SwapUint32(&x.v, val) }
func (x *Uint32) CompareAndSwap(old, val uint32) bool { return CompareAndSwapUint32(&x.v, old, val) }

// Uint64 mirrors atomic.Uint64.
type Uint64 struct{ v uint64 }

func (x *Uint64) Load() uint64                        { return LoadUint64(&x.v) }
func (x *Uint64) Store(val uint64)                    { StoreUint64(&x.v, val) }
func (x *Uint64) Add(delta uint64) uint64             { return AddUint64(&x.v, delta) }
func (x *Uint64) Swap(val uint64) uint64              { return SwapUint64(&x.v, val) }
func (x *Uint64) CompareAndSwap(old, val uint64) bool { return CompareAndSwapUint64(&x.v, old, val) }

// Uintptr mirrors atomic.Uintptr.
type Uintptr struct{ v uintptr }

func (x *Uintptr) Load() uintptr                        { return LoadUintptr(&x.v) }
func (x *Uintptr) Store(val uintptr)                    { StoreUintptr(&x.v, val) }
func (x *Uintptr) Add(delta uintptr) uintptr            { return AddUintptr(&x.v, delta) }
func (x *Uintptr) Swap(val uintptr) uintptr             { return SwapUintptr(&x.v, val) }
func (x *Uintptr) CompareAndSwap(old, val uintptr) bool { return CompareAndSwapUintptr(&x.v, old, val) }

// Bool mirrors atomic.Bool.
type Bool struct{ v uint32 }

func (x *Bool) Load() bool     { return LoadUint32(&x.v) != 0 }
func (x *Bool) Store(val bool) { StoreUint32(&x.v, uint32(b2u(val))) }
func (x *Bool) Swap(val bool) bool {
	return SwapUint32(&x.v, uint32(b2u(val))) != 0
}
func (x *Bool) CompareAndSwap(old, val bool) bool {
	return CompareAndSwapUint32(&x.v, uint32(b2u(old)), uint32(b2u(val)))
}

// Value mirrors atomic.Value.
type Value struct{ v atomic.Value }

func (x *Value) Load() (val interface{}) {
	step("atomic.Load", false, func() uint64 { val = x.v.Load(); return 0 })
	return
}
func (x *Value) Store(val interface{}) {
	step("atomic.Store", true, func() uint64 { x.v.Store(val); return 0 })
}
func (x *Value) Swap(val interface{}) (old interface{}) {
	step("atomic.Swap", true, func() uint64 { old = x.v.Swap(val); return 0 })
	return
}
func (x *Value) CompareAndSwap(old, val interface{}) (ok bool) {
	step("atomic.CAS", true, func() uint64 { ok = x.v.CompareAndSwap(old, val); return b2u(ok) })
	return
}

// Pointer mirrors atomic.Pointer.
type Pointer[T any] struct{ p atomic.Pointer[T] }

func (x *Pointer[T]) Load() (v *T) {
	step("atomic.Load", false, func() uint64 { v = x.p.Load(); return 0 })
	return
}
func (x *Pointer[T]) Store(val *T) {
	step("atomic.Store", true, func() uint64 { x.p.Store(val); return 0 })
}
func (x *Pointer[T]) Swap(val *T) (old *T) {
	step("atomic.Swap", true, func() uint64 { old = x.p.Swap(val); return 0 })
	return
}
func (x *Pointer[T]) CompareAndSwap(old, val *T) (ok bool) {
	step("atomic.CAS", true, func() uint64 { ok = x.p.CompareAndSwap(old, val); return b2u(ok) })
	return
}
