// Package vctx mirrors package context on top of the gosim scheduler. The
// rewriter substitutes it for "context" by import path.
package vctx

import (
	stdctx "context"
	"errors"
	"time"

	"verif/gosim/rt"
)

// Context mirrors context.Context; Done returns a simulated channel.
type Context interface {
	Deadline() (deadline time.Time, ok bool)
	Done() *rt.Chan[struct{}]
	Err() error
	Value(key interface{}) interface{}
}

type CancelFunc func()

// The error values are the standard ones so that errors.Is works across the
// boundary.
var (
	Canceled         = stdctx.Canceled
	DeadlineExceeded = stdctx.DeadlineExceeded
)

type emptyCtx struct{}

func (emptyCtx) Deadline() (time.Time, bool)       { return time.Time{}, false }
func (emptyCtx) Done() *rt.Chan[struct{}]          { return nil }
func (emptyCtx) Err() error                        { return nil }
func (emptyCtx) Value(key interface{}) interface{} { return nil }

var background = emptyCtx{}

func Background() Context { return background }
func TODO() Context       { return background }

type cancelCtx struct {
	parent   Context
	obj      *rt.Obj
	done     *rt.Chan[struct{}]
	err      error
	children map[*cancelCtx]struct{}
	order    []*cancelCtx
	deadline time.Time
	hasDl    bool
	timer    *rt.Timer
	cause    error
}

func (c *cancelCtx) Deadline() (time.Time, bool) {
	if c.hasDl {
		return c.deadline, true
	}
	return c.parent.Deadline()
}
func (c *cancelCtx) Done() *rt.Chan[struct{}] { return c.done }
func (c *cancelCtx) Err() error {
	var e error
	rt.Do(c.obj, "ctx.Err", nil, func() {
		e = c.err
		o := uint64(0)
		if e != nil {
			o = 1
		}
		rt.Event(c.obj, "err", o, false)
	})
	return e
}
func (c *cancelCtx) Value(key interface{}) interface{} { return c.parent.Value(key) }

// parentCancelCtx finds the nearest enclosing cancelCtx.
func parentCancelCtx(p Context) *cancelCtx {
	for {
		switch x := p.(type) {
		case *cancelCtx:
			return x
		case *valueCtx:
			p = x.parent
		default:
			return nil
		}
	}
}

func newCancelCtx(parent Context) *cancelCtx {
	if parent == nil {
		panic("cannot create context from nil parent")
	}
	c := &cancelCtx{parent: parent, obj: rt.NewObj("ctx"), done: rt.MakeChan[struct{}](0)}
	if p := parentCancelCtx(parent); p != nil {
		// registration reads the parent's state: a visible step
		rt.Do(p.obj, "ctx.child", nil, func() {
			if p.err != nil {
				c.cancelNow(p.err)
			} else {
				if p.children == nil {
					p.children = map[*cancelCtx]struct{}{}
				}
				p.children[c] = struct{}{}
				p.order = append(p.order, c)
			}
			rt.Event(p.obj, "child", 0, true)
		})
	}
	return c
}

// cancelNow marks c and its descendants cancelled (part of one visible step).
func (c *cancelCtx) cancelNow(err error) {
	if c.err != nil {
		return
	}
	c.err = err
	rt.Event(c.obj, "cancel", 0, true)
	c.done.CloseNow()
	if c.timer != nil {
		c.timer.Stop()
	}
	for _, ch := range c.order {
		if _, ok := c.children[ch]; ok {
			ch.cancelNow(err)
		}
	}
	c.children = nil
	c.order = nil
}

func (c *cancelCtx) cancel(err error) {
	rt.Do(c.obj, "ctx.cancel", nil, func() {
		c.cancelNow(err)
		if p := parentCancelCtx(c.parent); p != nil && p.children != nil {
			delete(p.children, c)
		}
	})
}

func WithCancel(parent Context) (Context, CancelFunc) {
	c := newCancelCtx(parent)
	return c, func() { c.cancel(Canceled) }
}

func WithDeadline(parent Context, d time.Time) (Context, CancelFunc) {
	if cur, ok := parent.Deadline(); ok && cur.Before(d) {
		return WithCancel(parent)
	}
	c := newCancelCtx(parent)
	c.deadline, c.hasDl = d, true
	if !d.After(rt.Now()) {
		c.cancel(DeadlineExceeded)
		return c, func() { c.cancel(Canceled) }
	}
	if c.err == nil {
		c.timer = rt.AfterFuncAt(d, "ctx-deadline", func() { c.cancelNow(DeadlineExceeded) })
	}
	return c, func() { c.cancel(Canceled) }
}

func WithTimeout(parent Context, d time.Duration) (Context, CancelFunc) {
	return WithDeadline(parent, rt.Now().Add(d))
}

type valueCtx struct {
	parent   Context
	key, val interface{}
}

func (v *valueCtx) Deadline() (time.Time, bool) { return v.parent.Deadline() }
func (v *valueCtx) Done() *rt.Chan[struct{}]    { return v.parent.Done() }
func (v *valueCtx) Err() error                  { return v.parent.Err() }
func (v *valueCtx) Value(key interface{}) interface{} {
	if v.key == key {
		return v.val
	}
	return v.parent.Value(key)
}

func WithValue(parent Context, key, val interface{}) Context {
	if parent == nil {
		panic("cannot create context from nil parent")
	}
	if key == nil {
		panic("nil key")
	}
	return &valueCtx{parent, key, val}
}

// WithCancelCause mirrors context.WithCancelCause (the cause is kept but Err
// reports Canceled, as in the standard library).
func WithCancelCause(parent Context) (Context, func(error)) {
	c := newCancelCtx(parent)
	return c, func(cause error) {
		if c.cause == nil {
			c.cause = cause
		}
		c.cancel(Canceled)
	}
}

// Cause mirrors context.Cause.
func Cause(c Context) error {
	if cc := parentCancelCtx(c); cc != nil {
		if cc.cause != nil {
			return cc.cause
		}
		return cc.err
	}
	return c.Err()
}

// Native converts a simulated context into a real one for foreign code. The
// result carries the deadline and values; cancellation is observed through
// Err (polled), Done never fires inside a simulation.
func Native(c Context) stdctx.Context {
	if c == nil {
		return nil
	}
	return nativeCtx{c}
}

type nativeCtx struct{ c Context }

func (n nativeCtx) Deadline() (time.Time, bool)       { return n.c.Deadline() }
func (n nativeCtx) Done() <-chan struct{}             { return nil }
func (n nativeCtx) Err() error                        { return n.c.Err() }
func (n nativeCtx) Value(key interface{}) interface{} { return n.c.Value(key) }

var _ = errors.New
