// Package vtime mirrors the parts of package time that lime-go uses, on the
// gosim virtual clock. The rewriter substitutes it for "time" by import path.
package vtime

import (
	"time"

	"verif/gosim/rt"
)

type (
	Time     = time.Time
	Duration = time.Duration
	Month    = time.Month
	Weekday  = time.Weekday
	Location = time.Location
)

const (
	Nanosecond  = time.Nanosecond
	Microsecond = time.Microsecond
	Millisecond = time.Millisecond
	Second      = time.Second
	Minute      = time.Minute
	Hour        = time.Hour
	RFC3339     = time.RFC3339
	RFC3339Nano = time.RFC3339Nano
)

var (
	UTC   = time.UTC
	Local = time.Local
)

func Now() Time             { return rt.Now() }
func Since(t Time) Duration { return rt.Now().Sub(t) }
func Until(t Time) Duration { return t.Sub(rt.Now()) }
func Unix(s, n int64) Time  { return time.Unix(s, n) }
func Date(y int, m Month, d, h, mi, s, ns int, l *Location) Time {
	return time.Date(y, m, d, h, mi, s, ns, l)
}
func ParseDuration(s string) (Duration, error) { return time.ParseDuration(s) }
func Parse(l, v string) (Time, error)          { return time.Parse(l, v) }

// Sleep blocks the goroutine until the virtual clock has advanced by d.
func Sleep(d Duration) {
	if d <= 0 {
		rt.Yield()
		return
	}
	fired := false
	obj := rt.NewObj("sleep")
	rt.AfterFuncAt(rt.Now().Add(d), "sleep", func() { fired = true })
	rt.Do(obj, "Sleep", func() bool { return fired }, func() { rt.Event(obj, "woke", 0, true) })
}

// After mirrors time.After.
func After(d Duration) *rt.Chan[Time] {
	c := rt.MakeChan[Time](1)
	at := rt.Now().Add(d)
	rt.AfterFuncAt(at, "after", func() { c.TimerSend(at) })
	return c
}

// Timer mirrors *time.Timer.
type Timer struct {
	C *rt.Chan[Time]
	t *rt.Timer
}

func NewTimer(d Duration) *Timer {
	c := rt.MakeChan[Time](1)
	at := rt.Now().Add(d)
	return &Timer{C: c, t: rt.AfterFuncAt(at, "timer", func() { c.TimerSend(at) })}
}

func (t *Timer) Stop() bool { return t.t.Stop() }

// AfterFunc mirrors time.AfterFunc: f runs in its own goroutine.
func AfterFunc(d Duration, f func()) *Timer {
	return &Timer{t: rt.AfterFuncAt(rt.Now().Add(d), "afterfunc", func() { rt.GoFromTimer(f) })}
}
