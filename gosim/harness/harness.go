// Package harness is the common driver of gosim checks: scenario registry,
// sharded exploration over worker processes, oracles, known findings,
// replay files and evidence.
package harness

import (
	"bufio"
	"encoding/json"
	"flag"
	"fmt"
	"hash/fnv"
	"io"
	"log"
	"os"
	"os/exec"
	"path/filepath"
	"runtime"
	"runtime/pprof"
	"sort"
	"strings"
	"sync"
	"time"

	"verif/gosim/rt"
)

// Violation is one oracle failure in one execution.
type Violation struct {
	Sig string `json:"sig"` // stable identity of the failure (never a wildcard)
	Msg string `json:"msg"`
}

// X is the per-execution context handed to scenario bodies.
type X struct {
	Sc    *Scenario
	viol  []Violation
	obs   []string
	Vars  map[string]interface{}
	final bool
}

// Failf records a violation with signature sig.
func (x *X) Failf(sig string, format string, a ...interface{}) {
	for _, v := range x.viol {
		if v.Sig == sig {
			return
		}
	}
	x.viol = append(x.viol, Violation{Sig: sig, Msg: fmt.Sprintf(format, a...)})
}

// Obs appends to the observation log (and orders the observation in the
// state hash so that pruning never merges different observation orders).
func (x *X) Obs(format string, a ...interface{}) {
	s := fmt.Sprintf(format, a...)
	x.obs = append(x.obs, s)
	if !x.final {
		rt.Obs(s)
	}
}

// Log returns the observations so far.
func (x *X) Log() []string { return x.obs }

// Scenario is one closed system to explore.
type Scenario struct {
	Name              string
	Opt               rt.Options
	Quick             int // deviation bound in the quick tier (-1: not run)
	Thorough          int // deviation bound in the thorough tier (-1: not run)
	Prune             bool
	Body              func(x *X)               // runs as simulated goroutine 0
	Final             func(x *X, r *rt.Result) // runs after the execution ended (outside the simulation)
	Reset             func()                   // resets process-global state before each execution
	AllowQuiescentEnd bool                     // the body may legitimately end without rt.Stop
}

// Check describes one property check binary.
type Check struct {
	Property  string
	Level     string // evidence level
	Scenarios []Scenario
	Assume    []string
	Rule      string
}

type job struct {
	Scenario string `json:"scenario"`
	Bound    int    `json:"bound"`
	Prefix   []int  `json:"prefix"`
	Prune    bool   `json:"prune"`
	Deadline int64  `json:"deadline"` // unix seconds, 0 = none
	MaxExec  int64  `json:"max_exec"`
}

type found struct {
	Violation
	Scenario string   `json:"scenario"`
	Bound    int      `json:"bound"`
	Choices  []int    `json:"choices"`
	Obs      []string `json:"obs"`
	End      string   `json:"end"`
	Alive    []string `json:"alive"`
	Crash    string   `json:"crash,omitempty"`
}

type jobResult struct {
	Stats    rt.Stats         `json:"stats"`
	Found    []found          `json:"found"`
	Outcomes map[string]int64 `json:"outcomes"`
	Kids     [][]int          `json:"kids,omitempty"`
	ToolErr  string           `json:"toolerr,omitempty"`
	Sample   *found           `json:"sample,omitempty"`
	Nondet   string           `json:"nondet,omitempty"`
}

var scen map[string]*Scenario

// one execution of sc with the given strategy prefix, fully judged
type runner struct {
	sc  *Scenario
	cur *X
}

func (rn *runner) body() {
	if rn.sc.Reset != nil {
		rn.sc.Reset()
	}
	rn.cur = &X{Sc: rn.sc, Vars: map[string]interface{}{}}
	rn.sc.Body(rn.cur)
}

func (rn *runner) judge(r *rt.Result) *X {
	x := rn.cur
	if x == nil {
		x = &X{Sc: rn.sc, Vars: map[string]interface{}{}}
	}
	x.final = true
	if rn.sc.Final != nil {
		rn.sc.Final(x, r)
	}
	// Safety net: every scenario body ends by calling rt.Stop. An execution that ended
	// any other way (everything blocked, or the horizon passed) means the body itself -
	// i.e. an application-level call into the library - never returned; the scenario's
	// own oracle did not get to look, so say it here.
	if !rn.sc.AllowQuiescentEnd && (r.End == rt.EndQuiescent || r.End == rt.EndHorizon) && len(x.viol) == 0 {
		where := "?"
		for _, g := range r.Alive {
			if g.ID == 0 {
				where = g.PendTag()
			}
		}
		x.Failf("body-blocked:"+where, "the scenario body never finished (execution ended %s): it is blocked in %q; alive: %v; log: %v", r.End, where, r.AliveSummary(), x.obs)
	}
	// An execution that used up its whole step budget never got anywhere near its end: on the
	// unchanged tree no execution of any scenario does (the evidence lists how executions
	// ended), so this is a goroutine that keeps running without blocking - a spin.
	if r.End == rt.EndSteps && len(x.viol) == 0 {
		x.Failf("spinning", "the execution used up its step budget without ending: some goroutine keeps running without ever blocking (a retry loop that makes no progress); alive: %v; log: %v", r.AliveSummary(), x.obs)
	}
	return x
}

func outcomeKey(x *X, r *rt.Result) string {
	h := fnv.New64a()
	for _, o := range x.obs {
		io.WriteString(h, o)
		h.Write([]byte{0})
	}
	io.WriteString(h, r.End.String())
	for _, a := range r.AliveSummary() {
		io.WriteString(h, a)
	}
	return fmt.Sprintf("%016x", h.Sum64())
}

// workerState persists across jobs of the same (scenario, bound) in a worker
type workerState struct {
	nDet int
	key  string
	ex   *rt.Explorer
}

func runJob(j job, ws *workerState) jobResult {
	sc := scen[j.Scenario]
	if sc == nil {
		return jobResult{ToolErr: "unknown scenario " + j.Scenario}
	}
	rn := &runner{sc: sc}
	key := fmt.Sprintf("%s/%d/%v", j.Scenario, j.Bound, j.Prune)
	var ex *rt.Explorer
	if ws.key == key && ws.ex != nil {
		ex = ws.ex
		ex.Stats = rt.Stats{}
	} else {
		ex = &rt.Explorer{Opt: sc.Opt, Bound: j.Bound, Prune: j.Prune}
		ws.key, ws.ex, ws.nDet = key, ex, 0
	}
	ex.Body = rn.body
	if j.Deadline > 0 {
		ex.Deadline = time.Unix(j.Deadline, 0)
	}
	res := jobResult{Outcomes: map[string]int64{}}
	seenSig := map[string]bool{}
	n := 0
	ex.OnResult = func(r *rt.Result, ch []int) bool {
		n++
		if r.End == rt.EndToolError {
			res.ToolErr = r.ToolErr
			return false
		}
		x := rn.judge(r)
		// determinism guard: replay the first executions and compare
		if ws.nDet < 20 {
			ws.nDet++
			save := ex.Stats
			saveV := ex.SwapVisited(nil)
			r2, ch2 := ex.RunOne(ch)
			x2 := rn.judge(r2)
			ex.SwapVisited(saveV)
			ex.Stats = save
			if fmt.Sprint(ch2) != fmt.Sprint(ch) || r2.StateHash != r.StateHash || strings.Join(x2.obs, "\n") != strings.Join(x.obs, "\n") {
				res.Nondet = fmt.Sprintf("replay of %v diverged: choices %v, hash %x vs %x, obs %q vs %q", ch, ch2, r.StateHash, r2.StateHash, x.obs, x2.obs)
				// locate the first differing event
				topt := ex.Opt
				ex.Opt.Trace = true
				ta, _ := ex.RunOne(ch)
				tb, _ := ex.RunOne(ch)
				ex.Opt = topt
				for i := 0; i < len(ta.Log) && i < len(tb.Log); i++ {
					if ta.Log[i] != tb.Log[i] {
						res.Nondet += fmt.Sprintf("; first differing event #%d: %q vs %q", i, ta.Log[i], tb.Log[i])
						break
					}
				}
				return false
			}
		}
		res.Outcomes[outcomeKey(x, r)]++
		if res.Sample == nil {
			res.Sample = &found{Scenario: j.Scenario, Bound: j.Bound, Choices: ch, Obs: x.obs, End: r.End.String(), Alive: r.AliveSummary()}
		}
		for _, v := range x.viol {
			if seenSig[v.Sig] {
				continue
			}
			seenSig[v.Sig] = true
			// re-execute the recorded choice list 5 times before believing it
			save := ex.Stats
			saveV := ex.SwapVisited(nil)
			for k := 0; k < 5; k++ {
				r2, _ := ex.RunOne(ch)
				x2 := rn.judge(r2)
				ok := false
				for _, v2 := range x2.viol {
					if v2.Sig == v.Sig {
						ok = true
					}
				}
				if !ok {
					res.Nondet = fmt.Sprintf("violation %s did not reproduce on re-execution %d of %v", v.Sig, k, ch)
				}
			}
			ex.SwapVisited(saveV)
			ex.Stats = save
			if res.Nondet != "" {
				return false
			}
			res.Found = append(res.Found, found{Violation: v, Scenario: j.Scenario, Bound: j.Bound, Choices: ch, Obs: x.obs, End: r.End.String(), Alive: r.AliveSummary(), Crash: r.Crash})
		}
		return len(seenSig) < 8
	}
	ex.MaxExec = j.MaxExec
	ex.Explore(j.Prefix)
	res.Stats = ex.Stats
	res.Kids = ex.Leftover
	return res
}

func workerLoop() {
	log.SetOutput(io.Discard)
	if pf := os.Getenv("GOSIM_PROF"); pf != "" {
		f, _ := os.Create(fmt.Sprintf("%s.%d", pf, os.Getpid()))
		pprof.StartCPUProfile(f)
		defer pprof.StopCPUProfile()
	}
	in := bufio.NewReaderSize(os.Stdin, 1<<20)
	out := json.NewEncoder(os.Stdout)
	ws := &workerState{}
	for {
		line, err := in.ReadBytes('\n')
		if len(line) > 0 {
			var j job
			if e := json.Unmarshal(line, &j); e != nil {
				out.Encode(jobResult{ToolErr: "bad job: " + e.Error()})
				continue
			}
			out.Encode(runJob(j, ws))
		}
		if err != nil {
			return
		}
	}
}

type worker struct {
	cmd *exec.Cmd
	in  io.WriteCloser
	out *bufio.Reader
}

func startWorker() (*worker, error) {
	cmd := exec.Command(os.Args[0], "--worker")
	cmd.Env = append(os.Environ(), "GOMAXPROCS=2")
	cmd.Stderr = os.Stderr
	in, err := cmd.StdinPipe()
	if err != nil {
		return nil, err
	}
	outp, err := cmd.StdoutPipe()
	if err != nil {
		return nil, err
	}
	if err := cmd.Start(); err != nil {
		return nil, err
	}
	return &worker{cmd: cmd, in: in, out: bufio.NewReaderSize(outp, 1<<20)}, nil
}

func (w *worker) do(j job) (jobResult, error) {
	b, _ := json.Marshal(j)
	if _, err := w.in.Write(append(b, '\n')); err != nil {
		return jobResult{}, err
	}
	line, err := w.out.ReadBytes('\n')
	if err != nil {
		return jobResult{}, fmt.Errorf("worker died: %v", err)
	}
	var r jobResult
	if err := json.Unmarshal(line, &r); err != nil {
		return jobResult{}, err
	}
	return r, nil
}

// ScenarioReport is the per-scenario part of the evidence.
type ScenarioReport struct {
	Name        string           `json:"name"`
	Bound       int              `json:"bound_completed"`
	Exhaustive  bool             `json:"exhaustive"`
	Executions  int64            `json:"executions"`
	Pruned      int64            `json:"pruned_executions"`
	States      int64            `json:"states"`
	Transitions int64            `json:"transitions"`
	Outcomes    int              `json:"distinct_outcomes"`
	DevHist     []int64          `json:"deviation_histogram"`
	Ends        map[string]int64 `json:"ends"`
	MaxPoints   int              `json:"max_choice_points"`
	Cap         string           `json:"cap,omitempty"`
	WallS       float64          `json:"wall_s"`
}

func merge(dst *rt.Stats, s rt.Stats) {
	dst.Executions += s.Executions
	dst.Pruned += s.Pruned
	dst.Transitions += s.Transitions
	dst.States += s.States
	if s.MaxPoints > dst.MaxPoints {
		dst.MaxPoints = s.MaxPoints
	}
	if dst.Ends == nil {
		dst.Ends = map[string]int64{}
	}
	for k, v := range s.Ends {
		dst.Ends[k] += v
	}
	for len(dst.DevHist) < len(s.DevHist) {
		dst.DevHist = append(dst.DevHist, 0)
	}
	for i, v := range s.DevHist {
		dst.DevHist[i] += v
	}
	if s.Capped {
		dst.Capped = true
		dst.CapReason = s.CapReason
	}
	dst.Frontier += s.Frontier
}

// Main is the entry point of every gosim check binary.
func Main(c Check) {
	workerMode := flag.Bool("worker", false, "internal: worker mode")
	tier := flag.String("tier", "quick", "quick|thorough")
	replay := flag.String("replay", "", "replay file")
	only := flag.String("only", "", "run only scenarios whose name contains this")
	boundF := flag.Int("bound", -1, "override deviation bound")
	nworkers := flag.Int("workers", runtime.NumCPU(), "worker processes")
	budget := flag.Int("budget", 0, "wall-clock budget in seconds (0: 200 quick / 1500 thorough)")
	evidence := flag.String("evidence", "", "evidence file to write")
	known := flag.String("known", "/verif/KNOWN_FINDINGS.txt", "known findings file")
	replayDir := flag.String("replays", "/verif/replays", "directory for replay files")
	flag.Parse()
	log.SetOutput(io.Discard)
	scen = map[string]*Scenario{}
	for i := range c.Scenarios {
		scen[c.Scenarios[i].Name] = &c.Scenarios[i]
	}
	if *workerMode {
		workerLoop()
		return
	}
	if *replay != "" {
		os.Exit(doReplay(c, *replay))
	}
	if *budget == 0 {
		*budget = 200
		if *tier == "thorough" {
			*budget = 1500
		}
	}
	seed := 0
	fmt.Sscan(os.Getenv("VERIF_SEED"), &seed)
	t0 := time.Now()
	hard := t0.Add(time.Duration(*budget) * time.Second)

	var ws []*worker
	for i := 0; i < *nworkers; i++ {
		w, err := startWorker()
		if err != nil {
			fmt.Fprintln(os.Stderr, "TOOL-ERROR: cannot start worker:", err)
			os.Exit(2)
		}
		ws = append(ws, w)
	}
	defer func() {
		for _, w := range ws {
			w.in.Close()
			w.cmd.Wait()
		}
	}()

	var reports []ScenarioReport
	var allFound []found
	var samples []interface{}
	var anySample interface{} // fallback when a run is cut short before the target bound
	total := rt.Stats{}
	outcomesTotal := 0
	exhaustive := true
	var active []Scenario
	for _, sc := range c.Scenarios {
		b := sc.Quick
		if *tier == "thorough" {
			b = sc.Thorough
		}
		if b < 0 || (*only != "" && !strings.Contains(sc.Name, *only)) {
			continue
		}
		active = append(active, sc)
	}
	for si, sc := range active {
		target := sc.Quick
		if *tier == "thorough" {
			target = sc.Thorough
		}
		if *boundF >= 0 {
			target = *boundF
		}
		// fair share of the remaining budget
		remain := time.Until(hard)
		share := remain / time.Duration(len(active)-si)
		scDeadline := time.Now().Add(share)
		ts := time.Now()
		rep := ScenarioReport{Name: sc.Name, Bound: -1, Exhaustive: true}
		var last rt.Stats
		outs := map[string]int64{}
		for bound := 0; bound <= target; bound++ {
			if bound < target && bound > 0 && target >= 2 && bound < target-1 {
				continue // run 0, target-1, target
			}
			st, fnd, smp, o, terr := exploreSharded(ws, sc, bound, scDeadline)
			if terr != "" {
				fmt.Fprintf(os.Stderr, "TOOL-ERROR: scenario %s bound %d: %s\n", sc.Name, bound, terr)
				os.Exit(2)
			}
			allFound = append(allFound, fnd...)
			if smp != nil && len(samples) < 6 && bound == target {
				samples = append(samples, smp)
			}
			if smp != nil {
				anySample = smp
			}
			last = st
			for k, v := range o {
				outs[k] += v
			}
			if st.Capped {
				rep.Exhaustive = false
				rep.Cap = fmt.Sprintf("bound %d capped by %s with %d frontier entries left", bound, st.CapReason, st.Frontier)
				break
			}
			rep.Bound = bound
			if len(fnd) > 0 && bound < target {
				// a violation at a lower bound: still finish the target bound
			}
		}
		rep.Executions, rep.Pruned, rep.States, rep.Transitions = last.Executions, last.Pruned, last.States, last.Transitions
		rep.DevHist, rep.Ends, rep.MaxPoints = last.DevHist, last.Ends, last.MaxPoints
		rep.Outcomes = len(outs)
		rep.WallS = time.Since(ts).Seconds()
		if !rep.Exhaustive {
			exhaustive = false
		}
		merge(&total, last)
		outcomesTotal += len(outs)
		reports = append(reports, rep)
		fmt.Printf("scenario %-40s bound=%d exec=%d pruned=%d states=%d outcomes=%d exhaustive=%v %.1fs %s\n", sc.Name, rep.Bound, rep.Executions, rep.Pruned, rep.States, rep.Outcomes, rep.Exhaustive, rep.WallS, rep.Cap)
	}

	// classify findings
	kn := loadKnown(*known, c.Property)
	exit := 0
	bySig := map[string]found{}
	var sigs []string
	for _, f := range allFound {
		if old, ok := bySig[f.Sig]; !ok || len(f.Choices) < len(old.Choices) {
			if !ok {
				sigs = append(sigs, f.Sig)
			}
			bySig[f.Sig] = f
		}
	}
	sort.Strings(sigs)
	nviol := 0
	for _, sig := range sigs {
		f := bySig[sig]
		if desc, ok := kn[sig]; ok {
			fmt.Printf("KNOWN-FINDING: property=%s %s [sig=%s scenario=%s]\n", c.Property, desc, sig, f.Scenario)
			continue
		}
		nviol++
		path := writeReplay(*replayDir, c.Property, f)
		fmt.Printf("VIOLATION property=%s replay=%s\n", c.Property, path)
		fmt.Printf("  sig=%s scenario=%s bound=%d: %s\n", sig, f.Scenario, f.Bound, f.Msg)
		exit = 1
	}

	if *evidence != "" {
		states := total.States
		if states == 0 {
			states = total.Executions // without pruning every execution prefix is its own search node
		}
		cov := map[string]interface{}{
			"states":                        states,
			"transitions":                   total.Transitions,
			"traces_validated_against_impl": total.Executions - total.Pruned,
			"executions":                    total.Executions,
			"pruned_executions":             total.Pruned,
			"distinct_outcomes":             outcomesTotal,
			"exhaustive":                    exhaustive,
			"samples":                       samplesOrAny(samples, anySample),
			"scenarios":                     reports,
			"rule":                          c.Rule,
			"evaluations":                   total.Executions,
			"distinct_nontrivial":           outcomesTotal,
		}
		ev := map[string]interface{}{
			"property_id": c.Property,
			"tier":        *tier,
			"seed":        seed,
			"level":       c.Level,
			"coverage":    cov,
			"assumptions": c.Assume,
			"wall_s":      time.Since(t0).Seconds(),
			"violations":  nviol,
		}
		b, _ := json.MarshalIndent(ev, "", " ")
		os.MkdirAll(filepath.Dir(*evidence), 0o755)
		if err := os.WriteFile(*evidence, b, 0o644); err != nil {
			fmt.Fprintln(os.Stderr, "TOOL-ERROR:", err)
			os.Exit(2)
		}
	}
	fmt.Printf("property %s tier %s: executions=%d states=%d transitions=%d outcomes=%d exhaustive=%v violations=%d wall=%.1fs\n",
		c.Property, *tier, total.Executions, total.States, total.Transitions, outcomesTotal, exhaustive, nviol, time.Since(t0).Seconds())
	for _, w := range ws {
		w.in.Close()
	}
	os.Exit(exit)
}

// exploreSharded explores one scenario at one bound over all workers. Work is
// split dynamically: a job explores at most jobExec executions of its subtree
// and hands the unexplored frontier back to the queue.
func exploreSharded(ws []*worker, sc Scenario, bound int, deadline time.Time) (rt.Stats, []found, interface{}, map[string]int64, string) {
	const jobExec = 2000
	var total rt.Stats
	var fnd []found
	outs := map[string]int64{}
	var sample interface{}
	var mu sync.Mutex
	cond := sync.NewCond(&mu)
	queue := [][]int{nil}
	busy := 0
	toolErr := ""
	stopAll := false
	sigs := map[string]bool{}
	var wg sync.WaitGroup
	for wi, w := range ws {
		wg.Add(1)
		go func(wi int, w *worker) {
			defer wg.Done()
			for {
				mu.Lock()
				for len(queue) == 0 && busy > 0 && toolErr == "" {
					cond.Wait()
				}
				if len(queue) == 0 || toolErr != "" {
					mu.Unlock()
					cond.Broadcast()
					return
				}
				if stopAll || time.Now().After(deadline) {
					if !stopAll {
						total.Capped, total.CapReason = true, "deadline"
					}
					total.Frontier += int64(len(queue))
					queue = nil
					mu.Unlock()
					cond.Broadcast()
					return
				}
				// FIFO: shallow prefixes first gives the best spread
				var p []int
				if len(queue) > 4*len(ws) {
					p = queue[len(queue)-1] // deep first keeps the queue bounded
					queue = queue[:len(queue)-1]
				} else {
					p = queue[0]
					queue = queue[1:]
				}
				busy++
				first := total.Executions == 0
				mu.Unlock()
				me := int64(jobExec)
				if first {
					me = 1
				}
				r, err := w.do(job{Scenario: sc.Name, Bound: bound, Prefix: p, Prune: sc.Prune, Deadline: deadline.Unix(), MaxExec: me})
				mu.Lock()
				busy--
				switch {
				case err != nil:
					toolErr = err.Error()
				case r.ToolErr != "":
					toolErr = r.ToolErr
				case r.Nondet != "":
					toolErr = "NONDETERMINISM: " + r.Nondet
				default:
					merge(&total, r.Stats)
					fnd = append(fnd, r.Found...)
					for _, f := range r.Found {
						sigs[f.Sig] = true
					}
					if len(sigs) >= 8 {
						stopAll = true
					}
					for k, v := range r.Outcomes {
						outs[k] += v
					}
					if sample == nil && r.Sample != nil {
						sample = r.Sample
					}
					queue = append(queue, r.Kids...)
				}
				mu.Unlock()
				cond.Broadcast()
			}
		}(wi, w)
	}
	wg.Wait()
	if stopAll {
		total.Capped, total.CapReason = true, "stopped after 8 distinct violation signatures"
	}
	return total, fnd, sample, outs, toolErr
}

func loadKnown(path, prop string) map[string]string {
	m := map[string]string{}
	b, err := os.ReadFile(path)
	if err != nil {
		return m
	}
	for _, l := range strings.Split(string(b), "\n") {
		l = strings.TrimSpace(l)
		if !strings.HasPrefix(l, "known:") {
			continue
		}
		f := strings.Fields(l)
		if len(f) < 4 || f[1] != "property="+prop || !strings.HasPrefix(f[2], "sig=") {
			continue
		}
		m[strings.TrimPrefix(f[2], "sig=")] = strings.Join(f[3:], " ")
	}
	return m
}

type replayFile struct {
	Property string   `json:"property"`
	Scenario string   `json:"scenario"`
	Bound    int      `json:"bound"`
	Sig      string   `json:"sig"`
	Msg      string   `json:"msg"`
	Choices  []int    `json:"choices"`
	Obs      []string `json:"observations"`
	End      string   `json:"end"`
	Alive    []string `json:"alive"`
	Crash    string   `json:"crash,omitempty"`
}

func writeReplay(dir, prop string, f found) string {
	d := filepath.Join(dir, prop)
	os.MkdirAll(d, 0o755)
	h := fnv.New32a()
	io.WriteString(h, f.Sig)
	p := filepath.Join(d, fmt.Sprintf("%s-%08x.json", sanitize(f.Scenario), h.Sum32()))
	b, _ := json.MarshalIndent(replayFile{Property: prop, Scenario: f.Scenario, Bound: f.Bound, Sig: f.Sig, Msg: f.Msg, Choices: f.Choices, Obs: f.Obs, End: f.End, Alive: f.Alive, Crash: f.Crash}, "", " ")
	os.WriteFile(p, b, 0o644)
	return p
}

func sanitize(s string) string {
	return strings.Map(func(r rune) rune {
		if r >= 'a' && r <= 'z' || r >= 'A' && r <= 'Z' || r >= '0' && r <= '9' || r == '-' || r == '_' {
			return r
		}
		return '_'
	}, s)
}

func doReplay(c Check, path string) int {
	b, err := os.ReadFile(path)
	if err != nil {
		fmt.Fprintln(os.Stderr, err)
		return 2
	}
	var rf replayFile
	if err := json.Unmarshal(b, &rf); err != nil {
		fmt.Fprintln(os.Stderr, err)
		return 2
	}
	sc := scen[rf.Scenario]
	if sc == nil {
		fmt.Fprintln(os.Stderr, "unknown scenario", rf.Scenario)
		return 2
	}
	rn := &runner{sc: sc}
	opt := sc.Opt
	opt.Trace = true
	opt.WantStacks = true
	ex := &rt.Explorer{Opt: opt, Bound: 99, Body: rn.body}
	r, ch := ex.RunOne(rf.Choices)
	x := rn.judge(r)
	fmt.Printf("replayed %s: end=%s choices=%v\n", rf.Scenario, r.End, ch)
	for _, l := range r.Log {
		fmt.Println("  ", l)
	}
	for _, o := range x.obs {
		fmt.Println("  obs:", o)
	}
	for _, g := range r.Alive {
		fmt.Printf("  alive: g%d %s\n", g.ID, g.Name)
		if g.Stack != "" {
			fmt.Println(indent(g.Stack))
		}
	}
	if r.Crash != "" {
		fmt.Println("  crash:", r.Crash)
	}
	if r.End == rt.EndToolError {
		fmt.Println("TOOL-ERROR:", r.ToolErr)
		return 2
	}
	rc := 0
	for _, v := range x.viol {
		fmt.Printf("VIOLATION property=%s replay=%s\n  sig=%s: %s\n", c.Property, path, v.Sig, v.Msg)
		rc = 1
	}
	return rc
}

func indent(s string) string {
	return "      " + strings.ReplaceAll(strings.TrimSpace(s), "\n", "\n      ")
}

func samplesOrAny(samples []interface{}, any interface{}) []interface{} {
	if len(samples) > 0 {
		return samples
	}
	if any != nil {
		return []interface{}{any}
	}
	return []interface{}{}
}
