package rt

// Chan is the simulated channel. A nil *Chan behaves like a nil channel.
type Chan[T any] struct {
	obj    *Obj
	buf    []T
	cap    int
	closed bool
	// rendezvous bookkeeping for unbuffered channels: number of goroutines
	// currently parked in a receive (plain or select) and in a send.
	recvWaiters []*waiter[T]
	sendWaiters []*waiter[T]
}

// waiter is a goroutine parked on a channel operation that can be completed
// by the counterpart (needed for rendezvous on unbuffered channels).
type waiter[T any] struct {
	g    *G
	val  T    // value to send (send waiter) / received value (recv waiter)
	ok   bool // recv: value valid (false = closed)
	done bool // completed by the counterpart
	sel  *selState
	idx  int // case index inside a select
}

type selState struct {
	fired int // -1 while waiting
}

// MakeChan is make(chan T, n).
func MakeChan[T any](n int) *Chan[T] {
	if n < 0 {
		panic("makechan: size out of range")
	}
	return &Chan[T]{obj: NewObj("chan"), cap: n}
}

func (c *Chan[T]) Len() int {
	if c == nil {
		return 0
	}
	return len(c.buf)
}

func (c *Chan[T]) Cap() int {
	if c == nil {
		return 0
	}
	return c.cap
}

// ---- readiness ---------------------------------------------------------------

// canRecv: a receive can complete now.
func (c *Chan[T]) canRecv(me *G) bool {
	if c == nil {
		return false
	}
	if len(c.buf) > 0 || c.closed {
		return true
	}
	return c.liveSender(me) != nil
}

// canSend: a send can complete now (or panic because closed).
func (c *Chan[T]) canSend(me *G) bool {
	if c == nil {
		return false
	}
	if c.closed {
		return true
	}
	if len(c.buf) < c.cap {
		return true
	}
	// direct hand-off to a parked receiver is only possible with an empty
	// buffer (otherwise that receiver is about to take the buffered value)
	return len(c.buf) == 0 && c.liveReceiver(me) != nil
}

func (c *Chan[T]) liveSender(me *G) *waiter[T] {
	for _, w := range c.sendWaiters {
		if !w.done && (w.sel == nil || w.sel.fired < 0) && w.g != me {
			return w
		}
	}
	return nil
}

func (c *Chan[T]) liveReceiver(me *G) *waiter[T] {
	for _, w := range c.recvWaiters {
		if !w.done && (w.sel == nil || w.sel.fired < 0) && w.g != me {
			return w
		}
	}
	return nil
}

func removeWaiter[T any](l []*waiter[T], w *waiter[T]) []*waiter[T] {
	for i, x := range l {
		if x == w {
			copy(l[i:], l[i+1:])
			l[len(l)-1] = nil
			return l[:len(l)-1]
		}
	}
	return l
}

// ---- plain operations --------------------------------------------------------
//
// Rendezvous model. A goroutine about to operate on a channel registers as a
// waiter before it parks. The counterpart, when it runs, sees a live waiter
// and completes the exchange for both (marking the waiter done). The parked
// goroutine's enabled() is "done || canX()", so it wakes either because its
// exchange was completed for it or because it can complete one itself.

// Send is ch <- v.
func (c *Chan[T]) Send(v T) {
	s := S
	if s == nil {
		panic("gosim: channel op outside simulation")
	}
	if c == nil {
		s.do(nil, "send(nil)", func() bool { return false }, nil)
		return
	}
	if s.dying {
		s.die(nil)
	}
	w := &waiter[T]{g: s.cur, val: v}
	c.sendWaiters = append(c.sendWaiters, w)
	s.do(c.obj, "send", func() bool { return w.done || c.canSend(w.g) }, nil)
	c.sendWaiters = removeWaiter(c.sendWaiters, w)
	if w.done {
		s.event(c.obj, "send-done", 0, false)
		return
	}
	c.sendNow(v)
}

// sendNow performs a send that is known to be possible.
func (c *Chan[T]) sendNow(v T) {
	s := S
	if c.closed {
		s.event(c.obj, "send-closed", 0, true)
		panic("send on closed channel")
	}
	if r := c.liveReceiver(s.cur); r != nil && len(c.buf) == 0 {
		r.val, r.ok, r.done = v, true, true
		if r.sel != nil {
			r.sel.fired = r.idx
		}
		s.event(c.obj, "send-rv", r.g.stable, true)
		return
	}
	if len(c.buf) < c.cap {
		c.buf = append(c.buf, v)
		s.event(c.obj, "send-buf", 0, true)
		return
	}
	panic("gosim: sendNow on a channel that cannot send")
}

// Recv is <-ch.
func (c *Chan[T]) Recv() T {
	v, _ := c.Recv2()
	return v
}

// Recv2 is v, ok := <-ch.
func (c *Chan[T]) Recv2() (T, bool) {
	s := S
	if s == nil {
		panic("gosim: channel op outside simulation")
	}
	var zero T
	if c == nil {
		s.do(nil, "recv(nil)", func() bool { return false }, nil)
		return zero, false
	}
	if s.dying {
		s.die(nil)
	}
	w := &waiter[T]{g: s.cur}
	c.recvWaiters = append(c.recvWaiters, w)
	s.do(c.obj, "recv", func() bool { return w.done || c.canRecv(w.g) }, nil)
	c.recvWaiters = removeWaiter(c.recvWaiters, w)
	if w.done {
		s.event(c.obj, "recv-done", 0, false)
		return w.val, w.ok
	}
	return c.recvNow()
}

func (c *Chan[T]) recvNow() (T, bool) {
	s := S
	var zero T
	if len(c.buf) > 0 {
		v := c.buf[0]
		c.buf[0] = zero
		c.buf = c.buf[1:]
		// a blocked sender can now move its value into the buffer
		if sw := c.liveSender(s.cur); sw != nil {
			c.buf = append(c.buf, sw.val)
			sw.done = true
			if sw.sel != nil {
				sw.sel.fired = sw.idx
			}
		}
		s.event(c.obj, "recv-buf", 0, true)
		return v, true
	}
	if sw := c.liveSender(s.cur); sw != nil {
		sw.done = true
		if sw.sel != nil {
			sw.sel.fired = sw.idx
		}
		s.event(c.obj, "recv-rv", sw.g.stable, true)
		return sw.val, true
	}
	if c.closed {
		s.event(c.obj, "recv-closed", 0, true)
		return zero, false
	}
	panic("gosim: recvNow on a channel that cannot receive")
}

// Close is close(ch).
func (c *Chan[T]) Close() {
	s := S
	if s == nil {
		panic("gosim: channel op outside simulation")
	}
	s.do(objOf(c), "close", nil, nil)
	if c == nil {
		panic("close of nil channel")
	}
	if c.closed {
		s.event(c.obj, "close-closed", 0, true)
		panic("close of closed channel")
	}
	c.closed = true
	s.event(c.obj, "close", 0, true)
}

func objOf[T any](c *Chan[T]) *Obj {
	if c == nil {
		return nil
	}
	return c.obj
}

// IsClosed is for harness oracles only (not a visible operation).
func (c *Chan[T]) IsClosed() bool { return c != nil && c.closed }

// ---- select ------------------------------------------------------------------

// Case is one communication clause of a select.
type Case interface {
	ready(me *G) bool
	register(st *selState, idx int)
	unregister()
	completed() bool
	fire()
	object() *Obj
}

// RecvCase is `case v, ok := <-ch`.
type RecvCase[T any] struct {
	ch  *Chan[T]
	w   *waiter[T]
	Val T
	Ok  bool
}

// SendCase is `case ch <- v`.
type SendCase[T any] struct {
	ch *Chan[T]
	w  *waiter[T]
	v  T
}

func RecvOf[T any](ch *Chan[T]) *RecvCase[T]      { return &RecvCase[T]{ch: ch} }
func SendOf[T any](ch *Chan[T], v T) *SendCase[T] { return &SendCase[T]{ch: ch, v: v} }

func (k *RecvCase[T]) ready(me *G) bool { return k.ch.canRecv(me) }
func (k *RecvCase[T]) register(st *selState, idx int) {
	if k.ch == nil {
		return
	}
	k.w = &waiter[T]{g: S.cur, sel: st, idx: idx}
	k.ch.recvWaiters = append(k.ch.recvWaiters, k.w)
}
func (k *RecvCase[T]) unregister() {
	if k.ch != nil && k.w != nil {
		k.ch.recvWaiters = removeWaiter(k.ch.recvWaiters, k.w)
	}
}
func (k *RecvCase[T]) completed() bool { return k.w != nil && k.w.done }
func (k *RecvCase[T]) fire() {
	if k.completed() {
		k.Val, k.Ok = k.w.val, k.w.ok
		S.event(k.ch.obj, "recv-done", 0, false)
		return
	}
	k.Val, k.Ok = k.ch.recvNow()
}
func (k *RecvCase[T]) object() *Obj { return objOf(k.ch) }

func (k *SendCase[T]) ready(me *G) bool { return k.ch.canSend(me) }
func (k *SendCase[T]) register(st *selState, idx int) {
	if k.ch == nil {
		return
	}
	k.w = &waiter[T]{g: S.cur, val: k.v, sel: st, idx: idx}
	k.ch.sendWaiters = append(k.ch.sendWaiters, k.w)
}
func (k *SendCase[T]) unregister() {
	if k.ch != nil && k.w != nil {
		k.ch.sendWaiters = removeWaiter(k.ch.sendWaiters, k.w)
	}
}
func (k *SendCase[T]) completed() bool { return k.w != nil && k.w.done }
func (k *SendCase[T]) fire() {
	if k.completed() {
		S.event(k.ch.obj, "send-done", 0, false)
		return
	}
	k.ch.sendNow(k.v)
}
func (k *SendCase[T]) object() *Obj { return objOf(k.ch) }

// Select performs a select statement; returns the index of the chosen case or
// -1 for default.
func Select(hasDefault bool, cases ...Case) int {
	s := S
	if s == nil {
		panic("gosim: select outside simulation")
	}
	if s.dying {
		s.die(nil)
	}
	st := &selState{fired: -1}
	me := s.cur
	if hasDefault {
		// a select with default never parks: it is a single visible step
		s.do(nil, "select-default", nil, nil)
	} else {
		for i, k := range cases {
			k.register(st, i)
		}
		s.do(nil, "select", func() bool {
			if st.fired >= 0 {
				return true
			}
			for _, k := range cases {
				if k.ready(me) {
					return true
				}
			}
			return false
		}, nil)
		for _, k := range cases {
			k.unregister()
		}
		if st.fired >= 0 {
			// the counterpart completed one of our cases for us
			cases[st.fired].fire()
			return st.fired
		}
	}
	var ready []int
	for i, k := range cases {
		if k.ready(me) {
			ready = append(ready, i)
		}
	}
	if len(ready) == 0 {
		if !hasDefault {
			panic("gosim: select woke with nothing ready")
		}
		for _, k := range cases {
			if o := k.object(); o != nil {
				s.event(o, "peek-none", 0, true)
			}
		}
		return -1
	}
	pick := 0
	if len(ready) > 1 {
		costs := make([]uint8, len(ready))
		for i := 1; i < len(ready); i++ {
			costs[i] = 1
		}
		pick = s.choose('c', costs)
	}
	i := ready[pick]
	cases[i].fire()
	return i
}

// TimerSend is a non-blocking send performed by a timer action (drops the
// value if the buffer is full, like the runtime's timer channels).
func (c *Chan[T]) TimerSend(v T) {
	s := S
	if r := c.liveReceiver(s.cur); r != nil && len(c.buf) == 0 {
		r.val, r.ok, r.done = v, true, true
		if r.sel != nil {
			r.sel.fired = r.idx
		}
		s.event(c.obj, "tsend-rv", r.g.stable, true)
		return
	}
	if len(c.buf) < c.cap {
		c.buf = append(c.buf, v)
		s.event(c.obj, "tsend-buf", 0, true)
	}
}

// CloseNow closes the channel as part of another visible operation (no
// scheduling point of its own); closing twice is a no-op. Used by vctx.
func (c *Chan[T]) CloseNow() {
	if c.closed {
		return
	}
	c.closed = true
	S.event(c.obj, "close", 0, true)
}

// RecvCase / SendCase build select cases (method form so that the element
// type comes from the channel and the sent value is merely assignable to it).
func (c *Chan[T]) RecvCase() *RecvCase[T]    { return &RecvCase[T]{ch: c} }
func (c *Chan[T]) SendCase(v T) *SendCase[T] { return &SendCase[T]{ch: c, v: v} }
