package rt

import (
	"io"
	"net"
	"os"
	"syscall"
	"time"
)

// half is one direction of a virtual connection.
type half struct {
	obj     *Obj
	buf     []byte
	cap     int
	wclosed bool // writing side closed: reader gets EOF after draining
	rclosed bool // reading side closed: writer's data goes nowhere
	reset   bool // closed by a reset: the reader gets ECONNRESET, buffered data is gone
}

// Conn is one end of a virtual, in-memory, scheduler-controlled connection
// with bounded buffers, deadlines on the virtual clock and partial writes.
type Conn struct {
	Name      string
	in, out   *half
	closed    bool
	rdl, wdl  time.Time
	rt, wt    *Timer
	Tap       func(b []byte) // sees every chunk this end writes, in order
	ReadChunk int            // >0: a Read returns at most this many bytes
	local     net.Addr
	remote    net.Addr
	BytesRead int64
	// ResetAfterPeerClose makes every write after the peer closed fail with EPIPE
	// (a connection reset) instead of offering that as a deviation.
	ResetAfterPeerClose bool
	peer                *Conn
}

type vaddr string

func (a vaddr) Network() string { return "tcp" }
func (a vaddr) String() string  { return string(a) }

// Pipe returns the two ends of a virtual connection; capacity is the size of
// each direction's buffer in bytes (<=0: 64 KiB).
func Pipe(capacity int) (*Conn, *Conn) {
	if capacity <= 0 {
		capacity = 64 << 10
	}
	ab := &half{obj: NewObj("pipe"), cap: capacity}
	ba := &half{obj: NewObj("pipe"), cap: capacity}
	a := &Conn{Name: "a", in: ba, out: ab, local: vaddr("10.0.0.1:1111"), remote: vaddr("10.0.0.2:2222")}
	b := &Conn{Name: "b", in: ab, out: ba, local: vaddr("10.0.0.2:2222"), remote: vaddr("10.0.0.1:1111")}
	a.peer, b.peer = b, a
	return a, b
}

func (s *Sched) passed(t time.Time) bool {
	return !t.IsZero() && t.Sub(s.epoch) <= s.clock
}

func timeoutErr(op string) error {
	return &net.OpError{Op: op, Net: "tcp", Err: os.ErrDeadlineExceeded}
}

func closedErr(op string) error {
	return &net.OpError{Op: op, Net: "tcp", Err: net.ErrClosed}
}

func (c *Conn) Read(b []byte) (int, error) {
	s := S
	var n int
	var err error
	s.do(c.in.obj, "Read", func() bool {
		return c.closed || len(c.in.buf) > 0 || c.in.wclosed || s.passed(c.rdl)
	}, func() {
		switch {
		case c.closed:
			err = closedErr("read")
			s.event(c.in.obj, "read-closed", 0, true)
		case s.passed(c.rdl):
			err = timeoutErr("read")
			s.event(c.in.obj, "read-timeout", 0, true)
		case c.in.reset:
			err = &net.OpError{Op: "read", Net: "tcp", Err: syscall.ECONNRESET}
			s.event(c.in.obj, "read-reset", 0, true)
		case len(b) == 0:
			s.event(c.in.obj, "read-0", 0, true)
		case len(c.in.buf) > 0:
			m := len(c.in.buf)
			if c.ReadChunk > 0 && m > c.ReadChunk {
				m = c.ReadChunk
			}
			n = copy(b, c.in.buf[:m])
			c.in.buf = c.in.buf[n:]
			c.BytesRead += int64(n)
			s.event(c.in.obj, "read", uint64(n), true)
		default:
			err = io.EOF
			s.event(c.in.obj, "read-eof", 0, true)
		}
	})
	return n, err
}

func (c *Conn) Write(b []byte) (int, error) {
	s := S
	total := 0
	for {
		var err error
		done := false
		s.do(c.out.obj, "Write", func() bool {
			return c.closed || c.out.rclosed || len(c.out.buf) < c.out.cap || s.passed(c.wdl) || len(b) == 0
		}, func() {
			switch {
			case c.closed:
				err = closedErr("write")
				s.event(c.out.obj, "write-closed", 0, true)
			case s.passed(c.wdl):
				err = timeoutErr("write")
				s.event(c.out.obj, "write-timeout", uint64(total), true)
			case c.out.rclosed:
				// the peer is gone: like a real socket the first writes may
				// still succeed; a reset is the deviation
				if c.ResetAfterPeerClose || c.in.reset || Deviate(2) == 1 {
					err = &net.OpError{Op: "write", Net: "tcp", Err: syscall.EPIPE}
					s.event(c.out.obj, "write-epipe", 0, true)
				} else {
					if c.Tap != nil {
						c.Tap(b)
					}
					total += len(b)
					b = nil
					done = true
					s.event(c.out.obj, "write-void", 0, true)
				}
			default:
				k := c.out.cap - len(c.out.buf)
				if k > len(b) {
					k = len(b)
				}
				c.out.buf = append(c.out.buf, b[:k]...)
				if c.Tap != nil && k > 0 {
					c.Tap(b[:k])
				}
				b = b[k:]
				total += k
				done = len(b) == 0
				s.event(c.out.obj, "write", uint64(k), true)
			}
		})
		if err != nil {
			return total, err
		}
		if done {
			return total, nil
		}
	}
}

// Close closes this end: local operations fail, the peer reads EOF after
// draining and its writes go nowhere.
func (c *Conn) Close() error {
	s := S
	var err error
	s.do(c.out.obj, "Close", nil, func() {
		if c.closed {
			err = closedErr("close")
			return
		}
		c.closed = true
		c.out.wclosed = true
		c.in.rclosed = true
		c.in.buf = nil
		s.event(c.out.obj, "close", 0, true)
		s.event(c.in.obj, "close", 0, true)
	})
	return err
}

// Reset closes this end abruptly (RST): what it had written and the peer has not
// read yet is discarded, the peer's reads fail with ECONNRESET and its writes with EPIPE.
func (c *Conn) Reset() error {
	s := S
	s.do(c.out.obj, "Reset", nil, func() {
		c.closed = true
		c.out.wclosed, c.out.reset = true, true
		c.out.buf = nil
		c.in.rclosed = true
		c.in.buf = nil
		s.event(c.out.obj, "reset", 0, true)
		s.event(c.in.obj, "reset", 0, true)
	})
	return nil
}

// CloseWrite half-closes: the peer reads EOF after draining, we can still read.
func (c *Conn) CloseWrite() error {
	s := S
	s.do(c.out.obj, "CloseWrite", nil, func() {
		c.out.wclosed = true
		s.event(c.out.obj, "closewrite", 0, true)
	})
	return nil
}

func (c *Conn) LocalAddr() net.Addr  { return c.local }
func (c *Conn) RemoteAddr() net.Addr { return c.remote }

func (c *Conn) SetDeadline(t time.Time) error {
	c.SetReadDeadline(t)
	return c.SetWriteDeadline(t)
}

// xlate maps a deadline computed by code that is not rewritten (crypto/tls
// uses the real time.Now() for its close-notify and handshake deadlines) onto
// the virtual clock: real deadlines lie years before the virtual epoch, so
// they are recognisable; their distance from the real now, rounded to 100 ms,
// is applied to the virtual now.
func (s *Sched) xlate(t time.Time) time.Time {
	if t.IsZero() || !t.Before(s.epoch.Add(-24*time.Hour)) {
		return t
	}
	d := time.Until(t).Round(100 * time.Millisecond)
	return s.epoch.Add(s.clock + d)
}

func (c *Conn) SetReadDeadline(t time.Time) error {
	s := S
	t = s.xlate(t)
	var err error
	s.do(c.in.obj, "SetReadDeadline", nil, func() {
		if c.closed {
			err = closedErr("set")
			return
		}
		c.rdl = t
		if c.rt != nil {
			c.rt.Stop()
			c.rt = nil
		}
		if !t.IsZero() && !s.passed(t) {
			c.rt = AfterFuncAt(t, "read-deadline", nil)
		}
		s.event(c.in.obj, "rdl", uint64(t.Sub(s.epoch)), true)
	})
	return err
}

func (c *Conn) SetWriteDeadline(t time.Time) error {
	s := S
	t = s.xlate(t)
	var err error
	s.do(c.out.obj, "SetWriteDeadline", nil, func() {
		if c.closed {
			err = closedErr("set")
			return
		}
		c.wdl = t
		if c.wt != nil {
			c.wt.Stop()
			c.wt = nil
		}
		if !t.IsZero() && !s.passed(t) {
			c.wt = AfterFuncAt(t, "write-deadline", nil)
		}
		s.event(c.out.obj, "wdl", uint64(t.Sub(s.epoch)), true)
	})
	return err
}

// IsClosed reports whether this end was closed (oracle use only).
func (c *Conn) IsClosed() bool { return c.closed }

// PeerClosed reports whether the other end was closed (oracle use only).
func (c *Conn) PeerClosed() bool { return c.peer.closed }

// Pending returns the bytes written to this end's peer and not yet read.
func (c *Conn) Pending() int { return len(c.out.buf) }

var _ net.Conn = (*Conn)(nil)

// Readable reports whether a Read on this end would return without waiting
// for the peer (data buffered, EOF, or this end closed). Harness use only.
func (c *Conn) Readable() bool {
	return c.closed || len(c.in.buf) > 0 || c.in.wclosed
}

// PeerBytesRead is the number of bytes the other end has read from this end.
func (c *Conn) PeerBytesRead() int64 { return c.peer.BytesRead }

// ParkedHere tells whether the goroutine is parked in a Read or Write on this end of the
// connection (census oracles use it to tell whose goroutine is left behind).
func (c *Conn) ParkedHere(g *G) bool {
	return g.pendTag == "Read" && g.pendObj == c.in.obj || g.pendTag == "Write" && g.pendObj == c.out.obj
}
