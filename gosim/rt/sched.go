// Package rt is the runtime of gosim: a cooperative, fully controlled scheduler
// for mechanically rewritten Go code. Exactly one simulated goroutine holds the
// "baton" at any time; every visible operation (channel op, select, lock,
// context cancel, timer, virtual-conn I/O, Choose) goes through Sched.do, which
// is where the explorer decides who runs next.
package rt

import (
	"fmt"
	"runtime"
	"runtime/debug"
	"sort"
	"strings"
	"sync"
	"time"
)

// ---- identifiers -----------------------------------------------------------

// Obj identifies a shared object in an interleaving-independent way: the
// stable id of the creating goroutine plus that goroutine's local creation
// counter.
type Obj struct {
	id   uint64 // stable hash
	ver  uint32 // number of write-events so far
	kind string
}

func (o *Obj) String() string { return fmt.Sprintf("%s#%x", o.kind, o.id&0xffffff) }

// G is one simulated goroutine.
type G struct {
	ID        int    // creation index in this execution (schedule-dependent)
	stable    uint64 // schedule-independent identity
	Name      string // creation site
	wake      chan struct{}
	pending   func() bool // non-nil while parked: is my next op enabled?
	pendTag   string      // label of the pending op (for census)
	pendObj   *Obj
	done      bool
	started   bool
	nEvents   uint32
	nObjs     uint32
	nSpawn    uint32
	run       int // consecutive steps while others enabled (fairness)
	Stack     string
	pcs       []uintptr
	isTimer   bool
	quiescing bool
}

// EndKind says why an execution ended.
type EndKind int

const (
	EndQuiescent EndKind = iota // no goroutine enabled, no timer pending
	EndHorizon                  // virtual clock passed the horizon
	EndSteps                    // step budget exhausted
	EndCrash                    // unrecovered panic in a simulated goroutine
	EndStopped                  // scenario called Stop
	EndPruned                   // explorer cut the execution (state already covered)
	EndToolError                // scheduler misuse
)

func (k EndKind) String() string {
	return [...]string{"quiescent", "horizon", "steps", "crash", "stopped", "pruned", "toolerror"}[k]
}

// Point is one recorded choice point.
type Point struct {
	N      int     // number of alternatives
	Chosen int     // alternative taken
	Costs  []uint8 // deviation cost of each alternative
	Kind   byte    // 's' schedule, 'c' select case, 'd' data (Choose), 'v' Deviate
	Free   bool    // outside the explored window (prologue/epilogue): not branched
}

// Options configure one execution.
type Options struct {
	Horizon          time.Duration // virtual time after which the execution is cut (default 40s)
	MaxSteps         int           // step budget (default 200000)
	FairLimit        int           // consecutive steps before a free deschedule (default 64)
	WantStacks       bool          // capture full stacks of blocked goroutines at the end
	NoExplore        bool          // start outside the explored window until BeginExplore
	Trace            bool          // keep a textual event log
	SpinLimit        int           // >0: end the execution (EndSteps, Livelock) after this many steps without the virtual clock advancing
	BoundAll         bool          // every departure from the default schedule costs one deviation, also at blocking points (delay bounding)
	NoTimerDeviation bool          // timers never fire while a goroutine can run (no I/O stalls)
}

// Result is what one execution produced.
type Result struct {
	End        EndKind
	Points     []Point
	Steps      int
	Crash      string // panic value + stack
	CrashSite  string
	Livelock   bool
	Alive      []*G // goroutines that had not finished when the execution ended
	Clock      time.Duration
	ToolErr    string
	Log        []string
	StateHash  [2]uint64
	PrunedAt   int
	WindowOpen bool
}

// Strategy supplies choices. next is called with the index of the point, the
// number of alternatives and their costs, and returns the alternative.
type Strategy interface {
	Next(s *Sched, idx int, kind byte, costs []uint8) int
	// AtPoint is called before a branchable scheduling decision with the
	// current state key; returning true cuts the execution.
	Cut(s *Sched, idx int) bool
}

type timer struct {
	at      time.Duration
	seq     uint64 // stable tiebreak
	fn      func()
	dead    bool
	tag     string
	heapIdx int
}

// Sched is the state of one execution.
type Sched struct {
	opt            Options
	gs             []*G
	cur            *G
	clock          time.Duration
	epoch          time.Time
	timers         []*timer
	strat          Strategy
	res            Result
	dying          bool
	endOnce        sync.Once
	endCh          chan struct{}
	wg             sync.WaitGroup
	hash           [2]uint64
	explore        bool
	timerG         *G
	clockObj       *Obj
	obsObj         *Obj
	lastClockStep  int
	bodyDone       bool
	stopAtBodyDone bool
	mu             sync.Mutex // only guards Alive bookkeeping at teardown
}

// S is the execution in progress (one per process at a time).
var S *Sched

var epoch uint64

// Epoch numbers the executions of this process. Shim objects that may live in
// package-level variables compare it with the epoch they were last used in and
// reset themselves, so that no state leaks from one execution into the next.
func Epoch() uint64 { return epoch }

type abortT struct{}

// ---- hashing ----------------------------------------------------------------

func mix(x uint64) uint64 {
	x ^= x >> 33
	x *= 0xff51afd7ed558ccd
	x ^= x >> 33
	x *= 0xc4ceb9fe1a85ec53
	x ^= x >> 33
	return x
}

func hstr(s string) uint64 {
	h := uint64(14695981039346656037)
	for i := 0; i < len(s); i++ {
		h ^= uint64(s[i])
		h *= 1099511628211
	}
	return h
}

// event records a visible operation in the order-insensitive state hash.
// write=true bumps the object's version (conflicting op); reads do not.
func (s *Sched) event(o *Obj, kind string, outcome uint64, write bool) {
	g := s.cur
	g.nEvents++
	var oid uint64
	var over uint32
	if o != nil {
		oid = o.id
		over = o.ver
		if write {
			o.ver++
		}
	}
	a := mix(g.stable ^ mix(uint64(g.nEvents)) ^ mix(oid+0x9e3779b97f4a7c15) ^ mix(uint64(over)<<20+hstr(kind)) ^ mix(outcome+0x1234567))
	s.hash[0] += a
	s.hash[1] += mix(a ^ 0xabcdef0123456789)
	if s.opt.Trace {
		s.res.Log = append(s.res.Log, fmt.Sprintf("g%d %s %v v%d -> %d @%v", g.ID, kind, o, over, outcome, s.clock))
	}
}

// Logf appends to the execution log when tracing.
func Logf(format string, a ...interface{}) {
	if S != nil && S.opt.Trace {
		S.res.Log = append(S.res.Log, fmt.Sprintf("g%d: ", S.cur.ID)+fmt.Sprintf(format, a...))
	}
}

// StateKey identifies the current global state up to Mazurkiewicz equivalence
// of the prefix (plus who holds the baton, which matters for preemption cost).
func (s *Sched) StateKey() [2]uint64 {
	return [2]uint64{s.hash[0] ^ mix(s.cur.stable), s.hash[1] ^ mix(uint64(btoi(s.explore)))}
}

func btoi(b bool) int {
	if b {
		return 1
	}
	return 0
}

// NewObj creates a shared-object identity owned by the current goroutine.
func NewObj(kind string) *Obj {
	s := S
	if s == nil {
		return &Obj{kind: kind}
	}
	g := s.cur
	g.nObjs++
	return &Obj{id: mix(g.stable*31 + uint64(g.nObjs)*0x100000001b3 + hstr(kind)), kind: kind}
}

// ---- running ---------------------------------------------------------------

// Run executes body under strat and returns the result. It must be called
// from a goroutine outside the simulation.
func Run(opt Options, strat Strategy, body func()) *Result {
	if opt.Horizon == 0 {
		opt.Horizon = 40 * time.Second
	}
	if opt.MaxSteps == 0 {
		opt.MaxSteps = 200000
	}
	if opt.FairLimit == 0 {
		opt.FairLimit = 64
	}
	s := &Sched{opt: opt, strat: strat, endCh: make(chan struct{})}
	s.epoch = time.Date(2030, 1, 1, 0, 0, 0, 0, time.UTC)
	s.explore = !opt.NoExplore
	s.res.PrunedAt = -1
	epoch++
	S = s
	s.timerG = &G{ID: -1, stable: 0x7177, Name: "timers", isTimer: true}
	g0 := s.newG("main", 0xa5a5)
	s.cur = g0
	s.clockObj = &Obj{id: 0xc10c, kind: "clock"}
	s.wg.Add(1)
	go s.gmain(g0, func() {
		body()
		s.bodyDone = true
		if s.stopAtBodyDone {
			s.end(EndStopped)
		}
	})
	g0.started = true
	g0.pending = nil
	g0.wake <- struct{}{}
	select {
	case <-s.endCh:
	case <-time.After(120 * time.Second):
		s.res.End = EndToolError
		s.res.ToolErr = "watchdog: execution did not end within 120s of real time (native blocking?)\n" + allStacks()
		return &s.res
	}
	// wait for every simulated goroutine to unwind
	done := make(chan struct{})
	go func() { s.wg.Wait(); close(done) }()
	select {
	case <-done:
	case <-time.After(30 * time.Second):
		s.res.End = EndToolError
		s.res.ToolErr = "watchdog: goroutines did not unwind (native blocking?)\n" + allStacks()
	}
	s.res.Clock = s.clock
	s.res.StateHash = s.hash
	s.res.WindowOpen = s.explore
	S = nil
	return &s.res
}

func allStacks() string {
	b := make([]byte, 1<<20)
	n := runtime.Stack(b, true)
	return string(b[:n])
}

func (s *Sched) newG(name string, stable uint64) *G {
	g := &G{ID: len(s.gs), Name: name, stable: stable, wake: make(chan struct{}, 1)}
	g.pending = func() bool { return true }
	g.pendTag = "start"
	s.gs = append(s.gs, g)
	return g
}

func (s *Sched) gmain(g *G, f func()) {
	defer s.wg.Done()
	defer func() {
		r := recover()
		if s.dying {
			return
		}
		if r != nil {
			if _, ok := r.(abortT); ok {
				return
			}
			st := string(debug.Stack())
			s.res.Crash = fmt.Sprintf("panic in goroutine %d (%s): %v\n%s", g.ID, g.Name, r, st)
			s.res.CrashSite = crashSite(st)
			s.endWith(EndCrash)
			return
		}
		// normal exit
		g.done = true
		g.pending = nil
		s.event(nil, "exit", 0, false)
		s.reschedule(g, true)
	}()
	<-g.wake
	if s.dying {
		return
	}
	f()
}

// crashSite extracts the first frame of package lime (or the first non-runtime
// frame) under the panic.
func crashSite(st string) string {
	lines := strings.Split(st, "\n")
	seenPanic := false
	first := ""
	for i := 0; i+1 < len(lines); i++ {
		l := lines[i]
		if strings.HasPrefix(l, "panic(") {
			seenPanic = true
			continue
		}
		if !seenPanic || strings.HasPrefix(l, "\t") || strings.HasPrefix(l, "goroutine ") || l == "" {
			continue
		}
		if strings.HasPrefix(l, "runtime.") || strings.Contains(l, "gosim/rt.") {
			continue
		}
		fn := l
		if j := strings.LastIndex(fn, "("); j > 0 {
			fn = fn[:j]
		}
		if first == "" {
			first = fn
		}
		if strings.Contains(fn, "lime-go.") {
			return fn
		}
	}
	return first
}

// Go starts a simulated goroutine.
func Go(f func()) {
	name := "?"
	if pc, _, _, ok := runtime.Caller(1); ok {
		if fn := runtime.FuncForPC(pc); fn != nil {
			name = fn.Name()
			if i := strings.LastIndex(name, "/"); i >= 0 {
				name = name[i+1:]
			}
		}
	}
	GoNamed(name, f)
}

// die unwinds the calling goroutine (used once the execution has ended).
func (s *Sched) die(g *G) {
	if s.opt.WantStacks && g != nil && g.Stack == "" {
		g.Stack = string(debug.Stack())
	}
	runtime.Goexit()
}

// end terminates the execution from the baton holder and never returns.
func (s *Sched) end(k EndKind) {
	s.endWith(k)
	s.die(s.cur)
}

func (s *Sched) endWith(k EndKind) {
	if s.dying {
		return
	}
	s.dying = true
	s.res.End = k
	for _, g := range s.gs {
		if !g.done {
			s.res.Alive = append(s.res.Alive, g)
		}
	}
	if s.opt.WantStacks && s.cur != nil && !s.cur.done {
		s.cur.Stack = string(debug.Stack())
	}
	for _, g := range s.gs {
		if g != s.cur && !g.done {
			select {
			case g.wake <- struct{}{}:
			default:
			}
		}
	}
	close(s.endCh)
}

// Stop ends the execution now (scenario decided it has seen enough).
func Stop() {
	if S != nil {
		S.end(EndStopped)
	}
}

// StopWhenBodyReturns makes the execution end as soon as the scenario body
// returns instead of draining to quiescence/horizon.
func StopWhenBodyReturns() { S.stopAtBodyDone = true }

// BeginExplore opens the explored window: choice points from here on are
// branched on by the explorer.
func BeginExplore() {
	if S != nil {
		S.explore = true
	}
}

// EndExplore closes the explored window.
func EndExplore() {
	if S != nil {
		S.explore = false
	}
}

// Now returns the virtual time.
func Now() time.Time {
	s := S
	if s == nil {
		return time.Now()
	}
	if s.dying {
		s.die(nil)
	}
	s.event(s.clockObj, "now", uint64(s.clock), false)
	return s.epoch.Add(s.clock)
}

// Elapsed returns the virtual time since the start of the execution.
func Elapsed() time.Duration { return S.clock }

// do is the single entry point of every visible operation: declare the
// operation (enabled may be nil = always enabled), let the explorer pick who
// runs, and when this goroutine holds the baton again with the operation
// enabled, perform action atomically.
func (s *Sched) do(o *Obj, tag string, enabled func() bool, action func()) {
	g := s.cur
	if s.dying {
		s.die(nil)
	}
	if enabled == nil {
		enabled = alwaysEnabled
	}
	g.pending = enabled
	g.pendTag = tag
	g.pendObj = o
	s.reschedule(g, false)
	g.pending = nil
	// every visible step advances the goroutine's position in the state hash
	s.event(o, tag, 0, false)
	if action != nil {
		action()
	}
}

func alwaysEnabled() bool { return true }

// Do is the exported form of do for the shim packages.
func Do(o *Obj, tag string, enabled func() bool, action func()) {
	if S == nil {
		// after the execution (oracle inspection): perform the operation
		// directly; it must not need to block
		if enabled != nil && !enabled() {
			panic("gosim/rt: operation " + tag + " would block outside a simulation")
		}
		if action != nil {
			action()
		}
		return
	}
	S.do(o, tag, enabled, action)
}

// Event records an operation outcome (exported for shims).
func Event(o *Obj, kind string, outcome uint64, write bool) {
	if S != nil {
		S.event(o, kind, outcome, write)
	}
}

// Active reports whether a simulation is running.
func Active() bool { return S != nil }

// reschedule picks the next goroutine. from is the caller (baton holder). If
// exiting, from is done and never resumes.
func (s *Sched) reschedule(from *G, exiting bool) {
	for {
		s.res.Steps++
		if s.opt.SpinLimit > 0 && s.res.Steps-s.lastClockStep > s.opt.SpinLimit {
			// so many visible steps within one instant of virtual time: somebody spins
			s.res.Livelock = true
			s.end(EndSteps)
		}
		if s.res.Steps > s.opt.MaxSteps {
			s.res.Livelock = s.res.Steps-s.lastClockStep > s.opt.MaxSteps/2
			s.end(EndSteps)
		}
		if s.clock > s.opt.Horizon {
			s.end(EndHorizon)
		}
		// timers that are already due (their instant has been reached) fire
		// at once: simultaneity, not a scheduling choice
		for {
			t := s.nextTimer()
			if t == nil || t.at > s.clock {
				break
			}
			s.fireTimer()
		}
		// enabled goroutines in canonical order: current first, then ascending id
		var alts []*G
		curEnabled := false
		if !exiting && from.pending != nil && from.pending() {
			curEnabled = true
		}
		fair := false
		if curEnabled {
			from.run++
			if from.run > s.opt.FairLimit {
				fair = true
			}
		}
		others := 0
		for _, g := range s.gs {
			if g == from || g.done || g.pending == nil {
				continue
			}
			if g.pending() {
				alts = append(alts, g)
				others++
			}
		}
		if fair && others > 0 {
			// fair deschedule: current goes last, for free
			from.run = 0
			alts = append(alts, from)
			curEnabled = false
		} else if curEnabled {
			alts = append([]*G{from}, alts...)
		}
		hasTimer := s.nextTimer() != nil
		if hasTimer && len(alts) > 0 && s.opt.NoTimerDeviation {
			hasTimer = false // time only passes when nothing can run: no stalls
		}
		n := len(alts)
		if hasTimer {
			n++
		}
		if n == 0 {
			s.end(EndQuiescent)
		}
		choice := 0
		if n > 1 {
			costs := make([]uint8, n)
			for i := range alts {
				if (curEnabled || s.opt.BoundAll) && i > 0 {
					costs[i] = 1
				}
			}
			if hasTimer && len(alts) > 0 {
				costs[n-1] = 1
			}
			choice = s.choose('s', costs)
		}
		if hasTimer && choice == n-1 {
			s.fireTimer()
			if exiting {
				continue
			}
			// the caller's op may have become enabled/disabled; loop
			continue
		}
		next := alts[choice]
		if next == from {
			return
		}
		from.run = 0
		s.cur = next
		next.wake <- struct{}{}
		if exiting {
			return
		}
		<-from.wake
		if s.dying {
			s.die(from)
		}
		// we were picked: our op is enabled now
		return
	}
}

// choose records a choice point and asks the strategy.
func (s *Sched) choose(kind byte, costs []uint8) int {
	idx := len(s.res.Points)
	free := !s.explore && kind != 'd' // data choices are always enumerated
	if !free && kind == 's' && s.strat != nil && s.strat.Cut(s, idx) {
		s.res.PrunedAt = idx
		s.end(EndPruned)
	}
	c := 0
	if s.strat != nil && !free {
		c = s.strat.Next(s, idx, kind, costs)
	}
	if c < 0 || c >= len(costs) {
		s.res.ToolErr = fmt.Sprintf("strategy chose %d of %d at point %d", c, len(costs), idx)
		s.end(EndToolError)
	}
	s.res.Points = append(s.res.Points, Point{N: len(costs), Chosen: c, Costs: costs, Kind: kind, Free: free})
	return c
}

// Choose is a data choice: all alternatives cost nothing and are enumerated.
func Choose(n int) int {
	if n <= 1 {
		return 0
	}
	s := S
	if s.dying {
		s.die(nil)
	}
	c := s.choose('d', make([]uint8, n))
	s.event(nil, "choose", uint64(c), false)
	return c
}

// Deviate is an environment choice where 0 is the default answer and every
// other answer costs one deviation.
func Deviate(n int) int {
	if n <= 1 {
		return 0
	}
	s := S
	if s.dying {
		s.die(nil)
	}
	costs := make([]uint8, n)
	for i := 1; i < n; i++ {
		costs[i] = 1
	}
	c := s.choose('v', costs)
	s.event(nil, "deviate", uint64(c), false)
	return c
}

// Yield is a pure scheduling point.
func Yield() { S.do(nil, "yield", nil, nil) }

// ---- timers ----------------------------------------------------------------

// Timer is a handle to a virtual timer.
type Timer struct{ t *timer }

// AfterFuncAt arms a timer at absolute virtual time at; fn runs on the
// scheduler (must not block) when the clock reaches it.
func AfterFuncAt(at time.Time, tag string, fn func()) *Timer {
	s := S
	d := at.Sub(s.epoch)
	g := s.cur
	g.nObjs++
	t := &timer{at: d, fn: fn, tag: tag, seq: mix(g.stable*7919 + uint64(g.nObjs))}
	s.timers = append(s.timers, t)
	s.event(s.clockObj, "arm", uint64(d), false)
	return &Timer{t}
}

// Stop cancels the timer; reports whether it had not fired.
func (t *Timer) Stop() bool {
	if t == nil || t.t == nil || t.t.dead {
		return false
	}
	t.t.dead = true
	return true
}

func (s *Sched) nextTimer() *timer {
	var best *timer
	j := 0
	for _, t := range s.timers {
		if t.dead {
			continue
		}
		s.timers[j] = t
		j++
		if best == nil || t.at < best.at || (t.at == best.at && t.seq < best.seq) {
			best = t
		}
	}
	for k := j; k < len(s.timers); k++ {
		s.timers[k] = nil
	}
	s.timers = s.timers[:j]
	return best
}

func (s *Sched) fireTimer() {
	t := s.nextTimer()
	t.dead = true
	if t.at > s.clock {
		s.clock = t.at
		s.lastClockStep = s.res.Steps
	}
	save := s.cur
	s.cur = s.timerG
	s.event(s.clockObj, "fire", t.seq, true)
	if t.fn != nil {
		t.fn()
	}
	s.cur = save
}

// ---- census ----------------------------------------------------------------

// AliveSummary lists unfinished goroutines as "name[pendingTag]" sorted.
func (r *Result) AliveSummary() []string {
	var out []string
	for _, g := range r.Alive {
		out = append(out, g.Name+"["+g.pendTag+"]")
	}
	sort.Strings(out)
	return out
}

// GoNamed is Go with an explicit name for the census.
func GoNamed(name string, f func()) {
	s := S
	if s == nil {
		go f()
		return
	}
	s.do(nil, "go", nil, nil)
	s.spawn(name, f)
}

func (s *Sched) spawn(name string, f func()) {
	p := s.cur
	p.nSpawn++
	g := s.newG(name, mix(p.stable*1000003+uint64(p.nSpawn)))
	s.event(nil, "spawn", g.stable, false)
	s.wg.Add(1)
	go s.gmain(g, f)
}

// GoFromTimer starts a goroutine from a timer action (no scheduling point).
func GoFromTimer(f func()) { S.spawn("timerfunc", f) }

// Obs records a harness observation as a totally ordered event, so that two
// executions that differ in the order of observations are different states
// for pruning purposes.
func Obs(tag string) {
	s := S
	if s == nil || s.dying {
		return
	}
	if s.obsObj == nil {
		s.obsObj = &Obj{id: 0x0b5, kind: "obs"}
	}
	s.event(s.obsObj, tag, 0, true)
}

// Quiesce blocks the caller until no other simulated goroutine can run (all
// are finished or blocked on I/O, locks, channels or timers). It is a harness
// primitive: "the rest of the system has done everything it can do now".
// It does not depend on any timer, so timer deviations cannot cut it short.
func Quiesce() {
	s := S
	me := s.cur
	me.quiescing = true
	s.do(nil, "quiesce", func() bool {
		for _, g := range s.gs {
			if g == me || g.done || g.pending == nil || g.quiescing {
				continue
			}
			if g.pending() {
				return false
			}
		}
		return true
	}, nil)
	me.quiescing = false
}

// PendTag is the label of the operation the goroutine was last parked on.
func (g *G) PendTag() string { return g.pendTag }
