package rt

import (
	"fmt"
	"time"
)

// Explorer is a stateless depth-first search over choice sequences with
// iterative deviation bounding and optional state-key pruning.
type Explorer struct {
	Opt      Options
	Body     func()
	Bound    int                                 // maximum total deviation cost
	Prune    bool                                // cut executions at states already covered with >= remaining budget
	Deadline time.Time                           // wall-clock cap (zero = none); hitting it makes the run non-exhaustive
	MaxExec  int64                               // execution cap (0 = none)
	OnResult func(r *Result, choices []int) bool // oracle; return false to stop the search

	Stats    Stats
	Leftover [][]int // unexplored prefixes when MaxExec stopped the search
	visited  map[[2]uint64]int8
	stop     bool
}

// Stats is what the search covered.
type Stats struct {
	Executions   int64
	Pruned       int64 // executions cut at an already-covered state
	Transitions  int64 // choice edges executed inside the explored window
	States       int64 // distinct state keys seen at branchable scheduling points
	MaxPoints    int
	Ends         map[string]int64
	DevHist      []int64 // executions by deviation cost
	Capped       bool
	CapReason    string
	Frontier     int64 // unexplored alternatives left when capped
	MaxDepthSeen int
}

type replay struct {
	e      *Explorer
	prefix []int
	used   int // deviation cost accumulated so far in this execution
}

func (r *replay) Next(s *Sched, idx int, kind byte, costs []uint8) int {
	c := 0
	if idx < len(r.prefix) {
		c = r.prefix[idx]
		if c >= len(costs) {
			s.res.ToolErr = fmt.Sprintf("replay divergence: point %d has %d alternatives, prefix wants %d", idx, len(costs), c)
			s.end(EndToolError)
		}
	}
	r.used += int(costs[c])
	r.e.Stats.Transitions++
	return c
}

func (r *replay) Cut(s *Sched, idx int) bool {
	e := r.e
	if e.visited == nil {
		return false
	}
	if idx < len(r.prefix) {
		return false
	}
	k := s.StateKey()
	rem := int8(e.Bound - r.used)
	if v, ok := e.visited[k]; ok {
		if v >= rem {
			return e.Prune
		}
	} else {
		e.Stats.States++
		if !e.Prune && len(e.visited) >= 4<<20 {
			return false // counting only: stop growing the table
		}
	}
	e.visited[k] = rem
	return false
}

// RunOne executes one choice list (used for replay and by the DFS).
func (e *Explorer) RunOne(prefix []int) (*Result, []int) {
	rp := &replay{e: e, prefix: prefix}
	res := Run(e.Opt, rp, e.Body)
	ch := make([]int, len(res.Points))
	for i, p := range res.Points {
		ch[i] = p.Chosen
	}
	return res, ch
}

// SwapVisited replaces the visited table (nil disables state tracking for the
// next executions) and returns the previous one.
func (e *Explorer) SwapVisited(v map[[2]uint64]int8) map[[2]uint64]int8 {
	old := e.visited
	e.visited = v
	return old
}

type frame struct {
	prefix []int
}

// Explore searches the subtree below root (nil = whole tree).
func (e *Explorer) Explore(root []int) {
	if e.Stats.Ends == nil {
		e.Stats.Ends = map[string]int64{}
	}
	if e.visited == nil {
		e.visited = map[[2]uint64]int8{}
	}
	stack := []frame{{prefix: root}}
	for len(stack) > 0 && !e.stop {
		if !e.Deadline.IsZero() && time.Now().After(e.Deadline) {
			e.Stats.Capped, e.Stats.CapReason = true, "deadline"
			break
		}
		if e.MaxExec > 0 && e.Stats.Executions >= e.MaxExec {
			e.Stats.Capped, e.Stats.CapReason = true, "max-executions"
			break
		}
		f := stack[len(stack)-1]
		stack = stack[:len(stack)-1]
		res, ch := e.RunOne(f.prefix)
		e.Stats.Executions++
		e.Stats.Ends[res.End.String()]++
		if len(res.Points) > e.Stats.MaxPoints {
			e.Stats.MaxPoints = len(res.Points)
		}
		if res.End == EndPruned {
			e.Stats.Pruned++
		} else {
			cost := 0
			for _, p := range res.Points {
				cost += int(p.Costs[p.Chosen])
			}
			for len(e.Stats.DevHist) <= cost {
				e.Stats.DevHist = append(e.Stats.DevHist, 0)
			}
			e.Stats.DevHist[cost]++
			if e.OnResult != nil && !e.OnResult(res, ch) {
				e.stop = true
				break
			}
		}
		// children: alternatives at every point at or after the prefix
		used := 0
		for i := 0; i < len(f.prefix) && i < len(res.Points); i++ {
			used += int(res.Points[i].Costs[res.Points[i].Chosen])
		}
		// push in reverse so that shallower/simpler alternatives are explored first
		var kids []frame
		for i := len(f.prefix); i < len(res.Points); i++ {
			p := res.Points[i]
			if !p.Free {
				for alt := 1; alt < p.N; alt++ {
					if used+int(p.Costs[alt]) > e.Bound {
						continue
					}
					np := make([]int, i+1)
					copy(np, ch[:i])
					np[i] = alt
					kids = append(kids, frame{prefix: np})
				}
			}
			used += int(p.Costs[p.Chosen])
		}
		for i := len(kids) - 1; i >= 0; i-- {
			stack = append(stack, kids[i])
		}
		if len(stack) > e.Stats.MaxDepthSeen {
			e.Stats.MaxDepthSeen = len(stack)
		}
	}
	e.Stats.Frontier = int64(len(stack))
	e.Leftover = nil
	if e.stop {
		e.Stats.Frontier = 0
	} else if e.Stats.Capped && e.Stats.CapReason == "max-executions" {
		// hand the unexplored frontier back (work splitting): not a cap of the search
		for _, f := range stack {
			e.Leftover = append(e.Leftover, f.prefix)
		}
		e.Stats.Capped, e.Stats.CapReason, e.Stats.Frontier = false, "", 0
	}
}
