package rt_test

import (
	"fmt"
	"sort"
	"strings"
	"testing"

	"verif/gosim/rt"
	"verif/gosim/vsync"
)

func outcomes(t *testing.T, bound int, prune bool, body func(out *string)) (map[string]int, rt.Stats) {
	res := map[string]int{}
	var out string
	e := &rt.Explorer{Bound: bound, Prune: prune, Body: func() { out = ""; body(&out) }}
	e.OnResult = func(r *rt.Result, ch []int) bool {
		if r.End == rt.EndToolError {
			t.Fatalf("tool error: %s", r.ToolErr)
		}
		k := out
		if r.End != rt.EndQuiescent {
			k += "|" + r.End.String()
		}
		if len(r.Alive) > 0 {
			k += "|alive:" + strings.Join(r.AliveSummary(), ",")
		}
		if r.Crash != "" {
			k += "|crash:" + strings.SplitN(r.Crash, "\n", 2)[0]
		}
		res[k]++
		return true
	}
	e.Explore(nil)
	return res, e.Stats
}

func keys(m map[string]int) []string {
	var k []string
	for x := range m {
		k = append(k, x)
	}
	sort.Strings(k)
	return k
}

func expect(t *testing.T, name string, got map[string]int, want ...string) {
	sort.Strings(want)
	g := keys(got)
	if fmt.Sprint(g) != fmt.Sprint(want) {
		t.Errorf("%s: outcomes %q, want %q", name, g, want)
	}
}

func TestLostUpdate(t *testing.T) {
	// unsynchronised read-modify-write separated by a yield: lost update needs 1 preemption
	body := func(out *string) {
		x := 0
		done := rt.MakeChan[int](2)
		for i := 0; i < 2; i++ {
			rt.Go(func() {
				v := x
				rt.Yield()
				x = v + 1
				done.Send(1)
			})
		}
		done.Recv()
		done.Recv()
		*out = fmt.Sprint(x)
	}
	got, _ := outcomes(t, 0, false, body)
	expect(t, "k0", got, "2")
	got, st := outcomes(t, 1, false, body)
	expect(t, "k1", got, "1", "2")
	t.Logf("k1 stats %+v", st)
	// pruning needs all shared state behind hooked objects: same race, but the
	// accesses are individually locked
	body2 := func(out *string) {
		x := 0
		var mu vsync.Mutex
		done := rt.MakeChan[int](2)
		for i := 0; i < 2; i++ {
			rt.Go(func() {
				mu.Lock()
				v := x
				mu.Unlock()
				mu.Lock()
				x = v + 1
				mu.Unlock()
				done.Send(1)
			})
		}
		done.Recv()
		done.Recv()
		*out = fmt.Sprint(x)
	}
	got, st = outcomes(t, 3, false, body2)
	expect(t, "k3", got, "1", "2")
	t.Logf("k3 unpruned stats %+v", st)
	got, st = outcomes(t, 3, true, body2)
	expect(t, "k3p", got, "1", "2")
	t.Logf("k3 pruned stats %+v", st)
	got, st = outcomes(t, 99, true, body2)
	expect(t, "k99p", got, "1", "2")
	t.Logf("unbounded pruned stats %+v", st)
}

func TestMutexProtects(t *testing.T) {
	body := func(out *string) {
		x := 0
		var mu vsync.Mutex
		var wg vsync.WaitGroup
		wg.Add(2)
		for i := 0; i < 2; i++ {
			rt.Go(func() {
				mu.Lock()
				v := x
				rt.Yield()
				x = v + 1
				mu.Unlock()
				wg.Done()
			})
		}
		wg.Wait()
		*out = fmt.Sprint(x)
	}
	got, st := outcomes(t, 3, false, body)
	expect(t, "mutex", got, "2")
	t.Logf("stats %+v", st)
}

func TestRendezvousAndClose(t *testing.T) {
	body := func(out *string) {
		c := rt.MakeChan[int](0)
		rt.Go(func() { c.Send(7); c.Close() })
		v, ok := c.Recv2()
		v2, ok2 := c.Recv2()
		*out = fmt.Sprint(v, ok, v2, ok2)
	}
	got, _ := outcomes(t, 2, false, body)
	expect(t, "rv", got, "7 true 0 false")
}

func TestSelectTwoReady(t *testing.T) {
	body := func(out *string) {
		a := rt.MakeChan[int](1)
		b := rt.MakeChan[int](1)
		a.Send(1)
		b.Send(2)
		ka, kb := rt.RecvOf(a), rt.RecvOf(b)
		switch rt.Select(false, ka, kb) {
		case 0:
			*out = fmt.Sprint("a", ka.Val)
		case 1:
			*out = fmt.Sprint("b", kb.Val)
		}
	}
	got, _ := outcomes(t, 0, false, body)
	expect(t, "sel k0", got, "a1")
	got, _ = outcomes(t, 1, false, body)
	expect(t, "sel k1", got, "a1", "b2")
}

func TestSelectDefaultAndNil(t *testing.T) {
	body := func(out *string) {
		var n *rt.Chan[int]
		a := rt.MakeChan[int](0)
		kn, ka := rt.RecvOf(n), rt.SendOf(a, 1)
		*out = fmt.Sprint(rt.Select(true, kn, ka))
	}
	got, _ := outcomes(t, 2, false, body)
	expect(t, "default", got, "-1")
}

func TestDeadlockDetected(t *testing.T) {
	body := func(out *string) {
		var a, b vsync.Mutex
		done := rt.MakeChan[int](2)
		rt.Go(func() { a.Lock(); b.Lock(); b.Unlock(); a.Unlock(); done.Send(1) })
		rt.Go(func() { b.Lock(); a.Lock(); a.Unlock(); b.Unlock(); done.Send(1) })
		done.Recv()
		done.Recv()
		*out = "ok"
	}
	got, _ := outcomes(t, 0, false, body)
	expect(t, "dl k0", got, "ok")
	got, _ = outcomes(t, 1, false, body)
	if len(got) != 2 {
		t.Errorf("deadlock not found at k=1: %v", keys(got))
	}
	t.Log(keys(got))
}

func TestSendOnClosedCrash(t *testing.T) {
	body := func(out *string) {
		c := rt.MakeChan[int](1)
		rt.Go(func() { c.Close() })
		c.Send(1)
		*out = "sent"
	}
	got, _ := outcomes(t, 1, false, body)
	if len(got) != 2 {
		t.Errorf("want sent + crash, got %v", keys(got))
	}
	t.Log(keys(got))
}

func TestRWMutexWriterPreference(t *testing.T) {
	// recursive read lock with a writer arriving in between deadlocks in Go
	body := func(out *string) {
		var mu vsync.RWMutex
		done := rt.MakeChan[int](2)
		rt.Go(func() { mu.RLock(); mu.RLock(); mu.RUnlock(); mu.RUnlock(); done.Send(1) })
		rt.Go(func() { mu.Lock(); mu.Unlock(); done.Send(1) })
		done.Recv()
		done.Recv()
		*out = "ok"
	}
	got, _ := outcomes(t, 2, false, body)
	if len(got) != 2 {
		t.Errorf("want ok + deadlock, got %v", keys(got))
	}
	t.Log(keys(got))
}

func TestDeterministicReplay(t *testing.T) {
	body := func() {
		c := rt.MakeChan[int](0)
		for i := 0; i < 3; i++ {
			i := i
			rt.Go(func() { c.Send(i) })
		}
		c.Recv()
		c.Recv()
		c.Recv()
	}
	e := &rt.Explorer{Bound: 2, Body: body}
	n := 0
	e.OnResult = func(r *rt.Result, ch []int) bool {
		n++
		if n%7 == 0 {
			r2, ch2 := e.RunOne(ch)
			if fmt.Sprint(ch2) != fmt.Sprint(ch) || r2.StateHash != r.StateHash {
				t.Fatalf("replay diverged: %v vs %v", ch, ch2)
			}
		}
		return true
	}
	e.Explore(nil)
	t.Logf("executions %d stats %+v", n, e.Stats)
}

func TestBufferedFullWithParkedReceiver(t *testing.T) {
	// a receiver parked on a buffered channel whose buffer is refilled before
	// it runs must not make a second sender think it can hand off directly
	body := func(out *string) {
		c := rt.MakeChan[int](1)
		done := rt.MakeChan[int](3)
		rt.Go(func() { v := c.Recv(); w := c.Recv(); done.Send(v*10 + w) })
		rt.Go(func() { c.Send(1); done.Send(0) })
		rt.Go(func() { c.Send(2); done.Send(0) })
		a, b, d := done.Recv(), done.Recv(), done.Recv()
		*out = fmt.Sprint(a + b + d)
	}
	got, _ := outcomes(t, 3, false, body)
	expect(t, "bufrv", got, "12", "21")
}
