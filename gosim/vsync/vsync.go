// Package vsync mirrors the parts of package sync that lime-go uses, on top of
// the gosim scheduler. The rewriter substitutes it for "sync" by import path.
package vsync

import "verif/gosim/rt"

// Locker mirrors sync.Locker.
type Locker interface {
	Lock()
	Unlock()
}

// Mutex mirrors sync.Mutex. The zero value is an unlocked mutex.
type Mutex struct {
	obj    *rt.Obj
	locked bool
	epoch  uint64
}

func (m *Mutex) o() *rt.Obj {
	if m.epoch != rt.Epoch() {
		*m = Mutex{epoch: rt.Epoch()} // left over from an earlier execution (package-level variable)
	}
	if m.obj == nil {
		m.obj = rt.NewObj("mutex")
	}
	return m.obj
}

func (m *Mutex) Lock() {
	rt.Do(m.o(), "Lock", func() bool { return !m.locked }, func() {
		m.locked = true
		rt.Event(m.obj, "lock", 0, true)
	})
}

func (m *Mutex) TryLock() bool {
	ok := false
	rt.Do(m.o(), "TryLock", nil, func() {
		if !m.locked {
			m.locked = true
			ok = true
		}
		rt.Event(m.obj, "trylock", b2u(ok), true)
	})
	return ok
}

func (m *Mutex) Unlock() {
	rt.Do(m.o(), "Unlock", nil, func() {
		if !m.locked {
			rt.Event(m.obj, "unlock-bad", 0, true)
			panic("sync: unlock of unlocked mutex")
		}
		m.locked = false
		rt.Event(m.obj, "unlock", 0, true)
	})
}

func b2u(b bool) uint64 {
	if b {
		return 1
	}
	return 0
}

// RWMutex mirrors sync.RWMutex including writer preference: a pending Lock
// blocks new RLocks.
type RWMutex struct {
	obj      *rt.Obj
	readers  int
	writer   bool
	wWaiting int
	epoch    uint64
}

func (m *RWMutex) o() *rt.Obj {
	if m.epoch != rt.Epoch() {
		*m = RWMutex{epoch: rt.Epoch()}
	}
	if m.obj == nil {
		m.obj = rt.NewObj("rwmutex")
	}
	return m.obj
}

func (m *RWMutex) Lock() {
	// step 1: announce (excludes new readers), step 2: acquire
	rt.Do(m.o(), "Lock-announce", nil, func() {
		m.wWaiting++
		rt.Event(m.obj, "wannounce", 0, true)
	})
	rt.Do(m.o(), "Lock", func() bool { return !m.writer && m.readers == 0 }, func() {
		m.wWaiting--
		m.writer = true
		rt.Event(m.obj, "wlock", 0, true)
	})
}

func (m *RWMutex) Unlock() {
	rt.Do(m.o(), "Unlock", nil, func() {
		if !m.writer {
			rt.Event(m.obj, "wunlock-bad", 0, true)
			panic("sync: Unlock of unlocked RWMutex")
		}
		m.writer = false
		rt.Event(m.obj, "wunlock", 0, true)
	})
}

func (m *RWMutex) RLock() {
	rt.Do(m.o(), "RLock", func() bool { return !m.writer && m.wWaiting == 0 }, func() {
		m.readers++
		rt.Event(m.obj, "rlock", 0, true)
	})
}

func (m *RWMutex) RUnlock() {
	rt.Do(m.o(), "RUnlock", nil, func() {
		if m.readers <= 0 {
			rt.Event(m.obj, "runlock-bad", 0, true)
			panic("sync: RUnlock of unlocked RWMutex")
		}
		m.readers--
		rt.Event(m.obj, "runlock", 0, true)
	})
}

// RLocker mirrors (*sync.RWMutex).RLocker.
func (m *RWMutex) RLocker() Locker { return (*rlocker)(m) }

type rlocker RWMutex

func (r *rlocker) Lock()   { (*RWMutex)(r).RLock() }
func (r *rlocker) Unlock() { (*RWMutex)(r).RUnlock() }

// Once mirrors sync.Once: concurrent callers block until the first call to f
// has returned.
type Once struct {
	obj     *rt.Obj
	started bool
	done    bool
	epoch   uint64
}

func (o *Once) Do(f func()) {
	if o.epoch != rt.Epoch() {
		*o = Once{epoch: rt.Epoch()}
	}
	if o.obj == nil {
		o.obj = rt.NewObj("once")
	}
	first := false
	rt.Do(o.obj, "Once", func() bool { return !o.started || o.done }, func() {
		if !o.started {
			o.started = true
			first = true
		}
		rt.Event(o.obj, "once", b2u(first), true)
	})
	if !first {
		return
	}
	defer func() {
		// like sync.Once, done is set even if f panics
		o.done = true
		if rt.Active() {
			rt.Event(o.obj, "once-done", 0, true)
		}
	}()
	f()
}

// WaitGroup mirrors sync.WaitGroup.
type WaitGroup struct {
	obj   *rt.Obj
	n     int
	epoch uint64
}

func (w *WaitGroup) o() *rt.Obj {
	if w.epoch != rt.Epoch() {
		*w = WaitGroup{epoch: rt.Epoch()}
	}
	if w.obj == nil {
		w.obj = rt.NewObj("waitgroup")
	}
	return w.obj
}

func (w *WaitGroup) Add(delta int) {
	rt.Do(w.o(), "wg.Add", nil, func() {
		w.n += delta
		rt.Event(w.obj, "wgadd", uint64(int64(delta)), true)
		if w.n < 0 {
			panic("sync: negative WaitGroup counter")
		}
	})
}

func (w *WaitGroup) Done() { w.Add(-1) }

func (w *WaitGroup) Wait() {
	rt.Do(w.o(), "wg.Wait", func() bool { return w.n == 0 }, func() {
		rt.Event(w.obj, "wgwait", 0, true)
	})
}

// Pool mirrors sync.Pool as a deterministic LIFO store (the real pool may also
// drop items at any time; keeping them is the behaviour in which reuse bugs show).
type Pool struct {
	New   func() interface{}
	obj   *rt.Obj
	items []interface{}
	epoch uint64
}

func (p *Pool) o() *rt.Obj {
	if p.epoch != rt.Epoch() {
		p.obj, p.items, p.epoch = nil, nil, rt.Epoch()
	}
	if p.obj == nil {
		p.obj = rt.NewObj("pool")
	}
	return p.obj
}

func (p *Pool) Get() interface{} {
	var v interface{}
	rt.Do(p.o(), "pool.Get", nil, func() {
		if n := len(p.items); n > 0 {
			v = p.items[n-1]
			p.items = p.items[:n-1]
			rt.Event(p.obj, "get-hit", uint64(n), true)
			return
		}
		rt.Event(p.obj, "get-miss", 0, true)
	})
	if v == nil && p.New != nil {
		v = p.New()
	}
	return v
}

func (p *Pool) Put(x interface{}) {
	if x == nil {
		return
	}
	rt.Do(p.o(), "pool.Put", nil, func() {
		p.items = append(p.items, x)
		rt.Event(p.obj, "put", uint64(len(p.items)), true)
	})
}
