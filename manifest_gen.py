#!/usr/bin/env python3
"""Regenerates MANIFEST.json from the table below (single source of truth)."""
import json
ids=[json.loads(l)['id'] for l in open('/verif/properties.jsonl')]
GOSIM_NOTE=("Trusted base: the gosim rewriter and runtime (channel/select/sync/context/time/virtual-net semantics, checked by the litmus tests in gosim/rt), "
 "a sequentially consistent scheduler with code between visible operations atomic, encoding/json, crypto/tls and the Go compiler. "
 "Values outside the stated alphabets and schedules beyond the stated deviation bound are not covered.")
NATIVE_NOTE=" A second, native part runs the real tcp and WebSocket listeners over loopback sockets: 17 scripted client behaviours (garbage, non-session first, bad first envelope, unoffered scheme, silence, upgrade variants, plain or half HTTP requests), each followed by Server.Close; the client's socket must see the connection end, ListenAndServe must return ErrServerClosed, no library or net/http goroutine and no callback may remain (inputs enumerated, one OS schedule each)."
checks={
 "C20": dict(level="model_checking", engine="gosim", design="4/C20",
   text="Exhaustive enumeration of handler tables x inbound sequences x schedules (deviation-bounded, with Mazurkiewicz-trace pruning) of the real Server/Client dispatch loop under a controlled scheduler, each execution compared with a first-match reference model.",
   technique="stateless model checking of the rewritten implementation (controlled scheduler, DFS with deviation bounding) against an executable reference model"),
}

HS_TECH="explicit enumeration of all protocol scripts/configurations/callback outcomes (script tree) executed on the real implementation under a controlled scheduler, each step compared with an executable reference model of the session protocol"
for pid,txt in {
 "C03":"Every client script (33-symbol alphabet, depth 3 quick / 4 thorough) x 6 server configurations x every Authenticate/Register outcome is executed against the real ServerChannel.EstablishSession and the real Server; established is accepted only if backed by an Authenticate call with the presented identity/scheme/credentials under an offered scheme, a known role and a successful Register whose node is the one announced.",
 "C07":"Same script tree; the emitted session envelopes are checked against the protocol order regular expression, the single session id, the server node as sender, monotonic State(), and fail-closed behaviour (failed+reason, nothing after, connection closed) for every in-exchange violation the reference model identifies.",
 "C09":"Same script tree over the full configuration lattice with real crypto/tls over the virtual connection: offered lists equal configured-and-supported in configuration order, confirmation only for an offered pair, and nothing travels in cleartext after a confirmed tls negotiation.",
 "C10":"Script tree restricted to configurations without 'none' on a TLS-capable connection, including clients that skip or refuse negotiation: Authenticate, authentication requests and established envelopes are only ever observed under TLS.",
 "C14":"Script tree against the real Server over virtual connections: every path that does not reach established must end with the connection closed by the server (client observes EOF), no per-connection goroutine left, and neither callback fired. A scripted WebSocket peer (text frames over a real opening handshake on a virtual pipe) runs the same tree against the real Server."+NATIVE_NOTE,
}.items():
    checks[pid]=dict(level="model_checking",engine="gosim",design="4/"+pid,text=txt,technique=HS_TECH)
checks["C08"]=dict(level="model_checking",engine="gosim",design="4/C08",
  text="Every server script (26-symbol alphabet incl. regressions, id variants, option/scheme lists, round trips, data, garbage, disconnect, silence; depth 3 quick / 5 thorough) x 4 client configurations is executed against the real ClientChannel.EstablishSession over a virtual connection with real TLS; the call must return without panic, report established only if the server's last word was established and adopt exactly that envelope's id/nodes, echo the latest session id, send credentials only in answer to an authentication request and close on finished/failed.",
  technique=HS_TECH)
SCHED_TECH="stateless model checking of the rewritten implementation: controlled scheduler, DFS over schedules with iterative deviation (delay) bounding and Mazurkiewicz-trace state pruning, oracle = executable reference model on every execution"
checks["C05"]=dict(level="model_checking",engine="gosim",design="4/C05",technique=SCHED_TECH,
  text="2-3 concurrent ProcessCommand callers with colliding ids, a canceller, and a peer answering from every plan (own id, omitted, duplicated, unknown id first, deferred) on a real established channel (in-process and TCP over a virtual pipe); every schedule within the deviation bound; each history is checked against a pending-command-table model (own id only, exactly-once, unmatched to the stream, no stuck caller, id reusable).")
checks["C04"]=dict(level="model_checking",engine="gosim",design="4/C04",technique=SCHED_TECH,
  text="Concurrent senders in both directions over real established channels (in-process queue 0/1; TCP over 64B and 64KiB virtual pipes, optionally with injected write stalls), all kind/size workloads as data choices and every schedule within the deviation bound; the delivered multiset must equal the successfully sent one with equal content and per-(sender,kind) order.")
checks["C13"]=dict(level="model_checking",engine="gosim",design="4/C13",technique=SCHED_TECH,
  text="An established pair is ended by client finish / server finish / server fail at every moment the bounded scheduler can choose relative to traffic in flight, over the in-process and TCP transports; terminal states, closed streams and receiver-done signals on both sides, closed connections and an empty goroutine census are required on every execution.")
SEQX_NOTE="Trusted base: encoding/json, crypto/tls, the Go compiler, and the passive scripted connection (seqx/pconn) that stands for the network; the real tcpTransport/ctxConn code runs unmodified (build tag verif only adds a constructor). Values outside the stated alphabets/sizes are not covered."
checks["C12"]=dict(level="fault_enumeration",engine="seqx",design="4/C12",note=SEQX_NOTE,
  technique="bounded-exhaustive enumeration of fault plans (every split/short write/stall/cut position) over a passive scripted connection driving the real transport; sequence oracle",
  text="Every write-side plan with up to 2 faults (short write of every length + transient timeout, stall, hard error, cancellation) and every read-side split of small envelope streams into up to 3 reads (4 in thorough), coalescing, byte-by-byte delivery, a timeout before every read and a cut at every offset is run through the real tcpTransport over a passive scripted connection (thorough: also real TLS 1.2/1.3 record streams); the received sequence must be exactly the successfully sent one, or an error.")
checks["C16"]=dict(level="fault_enumeration",engine="seqx",design="4/C16",note=SEQX_NOTE,
  technique="bounded-exhaustive enumeration of envelope sizes x stream positions x delivery plans over a passive scripted connection driving the real transport; byte-budget oracle",
  text="Streams of 1-4 exactly sized envelopes (sizes around L, 2L and far above, limits 64/256/1024 and the default) under every delivery plan (per envelope, coalesced, every split into up to 3 reads, byte by byte) through the real tcpTransport: no Receive consumes more than the limit, nothing above twice the limit is returned, everything within the limit is accepted wherever it stands in the stream; plus limit propagation through the real listener/dialer on loopback.")
checks["C18"]=dict(level="model_checking",engine="gosim",design="4/C18",technique=SCHED_TECH,
  text="A real Server with 1-2 real clients (TCP transport over virtual pipes, optionally an in-process listener) is closed at a stage chosen as data (start-up, dialled, established, traffic handled) and at every position the bounded scheduler can reach around it; ListenAndServe must return ErrServerClosed, nothing may panic or be left behind, established clients must observe finished, and the Established/Finished callbacks must pair up exactly once per established session, around its handlers. WebSocket clients and sessions ended from inside the Established callback are included."+NATIVE_NOTE)
checks["C19"]=dict(level="model_checking",engine="gosim",design="4/C19",technique=SCHED_TECH,
  text="A real Client against a real Server over per-dial virtual TCP connections suffers each fault kind (server finish/fail, abrupt close, half-close, undecodable bytes, non-envelope JSON, oversized envelope) idle or concurrently with a send, at every position within the deviation bound; afterwards a fresh session must exist, a server message must reach the handler, no goroutine may spin, successful sends must have hit the wire of a live session, and Close must leave nothing behind.")
checks["C17"]=dict(level="model_checking",engine="gosim",design="4/C17",technique=SCHED_TECH,
  text="2-3 concurrent real clients with distinct identities on one real Server (TCP over virtual pipes mixed with the in-process listener), Register assigning distinct addresses, handlers replying through their Sender; every schedule within the deviation bound including the handshakes; each handler's context must carry its own session's id and nodes, replies must reach only their own client, ids must be distinct and equal to the announced ones.")
checks["C15"]=dict(level="model_checking",engine="gosim",design="4/C15",technique=SCHED_TECH,
  text="Each context-taking blocking operation (transport Send/Receive, in-process Accept, the four channel sends, ProcessCommand, client FinishSession, client and server EstablishSession at every stage including a stalled TLS upgrade) is run in isolation on the in-process and TCP transports against a silent / non-consuming peer, with its context ended by deadline or by cancellation from another goroutine; on the virtual clock (which only advances when everything is blocked) the call must return an error at the deadline, or within the 5s poll interval after a cancellation (0 in-process).")
checks["C06"]=dict(level="model_checking",engine="gosim",design="4/C06",technique=SCHED_TECH,
  text="Send direction: a real client/server pair runs handshake, establishment and one of three teardowns while one send call per role (each of the five send operations), released at a stage chosen as data, is placed at every position within the deviation bound; wire taps show what was really written: nothing before the established envelope, nothing after the terminating call returned, success only if written. Receive direction: every data envelope kind injected at every handshake position against the real Server and the real client channel never reaches handlers or streams and aborts the handshake.")
CODEC_NOTE="Trusted base: encoding/json, net/url and the Go compiler; the real codec, the real tcpTransport receive path and the real websocketTransport over a real gorilla connection run unmodified over a passive in-memory connection. Values outside the stated grammar/depth and mutation sets are not covered; WebSocket messages are single unfragmented text frames."
checks["C01"]=dict(level="exploration",engine="seqx",design="4/C01",note=CODEC_NOTE,
  technique="bounded-exhaustive enumeration of a value grammar (every term up to a depth, simplest first) through the real encoders/decoders and the real transport receive path; canonical-equality oracle",
  text="Every envelope of the grammar (5 kinds x optional-field combinations x document kinds nested to depth 2 quick / 3 thorough x escapes/unicode strings x all enum members x every authentication scheme) is marshalled, decoded by the typed decoder and by the real TCP transport receive path, sent through the real WebSocket transport and received back through it (both the frame it wrote and the plain encoding), and compared field by field; every Node/Identity/MediaType/URI text form over a small alphabet up to the length bound must parse back.")
checks["C02"]=dict(level="exploration",engine="seqx",design="4/C02",note=CODEC_NOTE,
  technique="bounded-exhaustive structural mutation of valid encodings (every single point mutation at every JSON node, ordered pairs on the smallest seeds, every truncation, concatenations) through every decoder under recover; accept-implies-stable oracle",
  text="About 500 seed encodings are mutated at every JSON node (delete, null, every wrong JSON type, alien key, swapped sub-tree, duplicate key), truncated at every byte and concatenated; each byte string goes to the five typed decoders, the real TCP transport receive path (as a stream) and the real WebSocket transport (as one text message) under recover: no panic, and whatever is accepted re-encodes to something that decodes to an equal envelope of the same kind.")
checks["C11"]=dict(level="exploration",engine="seqx",design="4/C11",note=CODEC_NOTE,
  technique="bounded-exhaustive enumeration of source envelopes x builder functions x arguments, each built reply checked field by field and through a wire round trip; plus one real ping round trip per direction",
  text="Every request command / message of the base grammar (from/pp/to present or absent in all combinations, all methods, resources of every document kind) is passed to every reply builder (SuccessResponse, SuccessResponseWithResource, FailureResponse, Notification x events, FailedNotification, Sender); id, method, addressing, status, reason, resource and resource type are checked on the built value and after encoding + decoding through the typed decoder, the TCP transport receive path and the WebSocket transport receive path; the ping auto-reply is exercised through real endpoints in both directions.")
na_reason={}
m={"version":1,
 "setup_cmd":"./setup.sh",
 "hooks":{"guard":"verif","enable":"go build -tags verif (gosim additionally: -overlay of mechanically rewritten sources)",
          "baseline_off_cmd":"cd /repo && go test -json -vet=off -count=1 -timeout 25m ./...",
          "source_commits":["f7aa890","ed1cce0","5eecebe","b3f9644"],"add_only":True},
 "engines":[
  {"name":"gosim","path":"gosim/","serves_properties":sorted(k for k,v in checks.items() if v["engine"]=="gosim"),
   "kind_free_text":"source-to-source rewriter (go/chan/select/sync/context/time -> controlled scheduler) + stateless DFS explorer with deviation bounding, state-key pruning and sharding over worker processes; runs the real lime-go code"},
  {"name":"seqx","path":"seqx/","serves_properties":sorted(k for k,v in checks.items() if v["engine"]=="seqx"),
   "kind_free_text":"sequential bounded-exhaustive enumeration (value grammars, structural mutations, fault plans over a passive scripted net.Conn) on the unmodified code"}],
 "checks":[],
 "notes":"All checks rebuild from /repo's working tree via ./check <ID>; scratch files live in a mktemp dir removed on exit. See DESIGN.md.",
 "not_applicable":[]}
for i in ids:
    if i in checks:
        c=checks[i]
        m["checks"].append({"property_id":i,"quick_cmd":f"./check {i} --tier quick","thorough_cmd":f"./check {i} --tier thorough",
          "evidence_file":f"/verif/evidence/{i}.json","replay_cmd_template":f"./check {i} --replay {{path}}","engine":c["engine"],
          "level_claimed":{"category":c["level"],"text":c["text"],"design_ref":c["design"]},
          "level_note":c.get("note",GOSIM_NOTE),"technique":c["technique"]})
    else:
        m["not_applicable"].append({"property_id":i,"reason":na_reason.get(i,"check not built yet (work in progress; model-checking design in DESIGN.md section 4)")})
json.dump(m,open('/verif/MANIFEST.json','w'),indent=1)
print("checks:",len(m["checks"]),"not_applicable:",len(m["not_applicable"]))
