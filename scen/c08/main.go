// C08 - client handshake tolerates any server and reports establishment
// truthfully. A scripted server (raw JSON / real TLS over a virtual pipe)
// answers the real ClientChannel.EstablishSession with every script over a
// finite alphabet up to a depth; client configurations (selectors,
// authenticators, TLS capability) are enumerated too.
package main

import (
	"context"
	"encoding/json"
	"errors"
	"fmt"
	"strings"
	"time"

	lime "github.com/takenet/lime-go"
	"verif/gosim/harness"
	"verif/gosim/rt"
	"verif/scen/lib"
)

type sinput struct {
	name  string
	kind  string // session | data | garbage | close | silence
	state string
	id    string // S1 | S2 | ""
	body  map[string]interface{}
	raw   string
}

const srvNode = "postmaster@srv.test/s1"
const cliNode = "alice@cli.test/assigned"

func salphabet() []sinput {
	var a []sinput
	ses := func(name, state, id string, body map[string]interface{}) {
		a = append(a, sinput{name: name, kind: "session", state: state, id: id, body: body})
	}
	ses("neg-opts[none,tls]", "negotiating", "S1", map[string]interface{}{"encryptionOptions": []string{"none", "tls"}, "compressionOptions": []string{"none"}})
	ses("neg-opts[none]", "negotiating", "S1", map[string]interface{}{"encryptionOptions": []string{"none"}, "compressionOptions": []string{"none", "gzip"}})
	ses("neg-opts[]", "negotiating", "S1", map[string]interface{}{"encryptionOptions": []string{}, "compressionOptions": []string{}})
	ses("neg-opts[zzz]", "negotiating", "S2", map[string]interface{}{"encryptionOptions": []string{"zzz"}, "compressionOptions": []string{"none"}})
	ses("neg-confirm(none)", "negotiating", "S1", map[string]interface{}{"encryption": "none", "compression": "none"})
	ses("neg-confirm(tls)", "negotiating", "S1", map[string]interface{}{"encryption": "tls", "compression": "none"})
	ses("neg-confirm(empty)", "negotiating", "S1", nil)
	ses("auth[guest]", "authenticating", "S1", map[string]interface{}{"schemeOptions": []string{"guest"}})
	ses("auth[plain,key]", "authenticating", "S2", map[string]interface{}{"schemeOptions": []string{"plain", "key"}})
	ses("auth[]", "authenticating", "S1", map[string]interface{}{"schemeOptions": []string{}})
	ses("auth-roundtrip", "authenticating", "S1", map[string]interface{}{"scheme": "plain", "authentication": map[string]string{"password": "cnQ="}})
	ses("established", "established", "S1", map[string]interface{}{"to": cliNode})
	ses("established(S2)", "established", "S2", map[string]interface{}{"to": "bob@other.test/x"})
	ses("established(no-to)", "established", "S1", nil)
	ses("auth[guest](from=front)", "authenticating", "S1", map[string]interface{}{"schemeOptions": []string{"guest"}, "from": "postmaster@front.test/lb"})
	ses("established(no-from)", "established", "S1", map[string]interface{}{"to": cliNode, "from": nil})
	ses("finished", "finished", "S1", nil)
	ses("failed", "failed", "S1", map[string]interface{}{"reason": map[string]interface{}{"code": 1, "description": "no"}})
	ses("finishing", "finishing", "S1", nil)
	ses("new", "new", "S1", nil)
	ses("auth(no-id)", "authenticating", "", map[string]interface{}{"schemeOptions": []string{"guest"}})
	a = append(a, sinput{name: "message", kind: "data", raw: `{"id":"m1","type":"text/plain","content":"hi"}`})
	a = append(a, sinput{name: "response", kind: "data", raw: `{"id":"c1","method":"get","status":"success"}`})
	a = append(a, sinput{name: "garbage", kind: "garbage", raw: `}{`})
	a = append(a, sinput{name: "non-envelope", kind: "garbage", raw: `{"foo":1}`})
	a = append(a, sinput{name: "bad-state", kind: "garbage", raw: `{"state":"bogus","id":"S1"}`})
	a = append(a, sinput{name: "close", kind: "close"})
	a = append(a, sinput{name: "silence", kind: "silence"})
	return a
}

func (in sinput) bytes() []byte {
	if in.kind != "session" {
		return []byte(in.raw)
	}
	m := map[string]interface{}{"state": in.state, "from": srvNode}
	if in.id != "" {
		m["id"] = in.id
	}
	for k, v := range in.body {
		if v == nil {
			delete(m, k)
			continue
		}
		m[k] = v
	}
	b, _ := json.Marshal(m)
	return b
}

type ccfg struct {
	name string
	comp lime.CompressionSelector
	enc  lime.EncryptionSelector
	auth lime.Authenticator
	tls  bool
}

func clientConfigs() []ccfg {
	firstEnc := func(o []lime.SessionEncryption) lime.SessionEncryption {
		if len(o) > 0 {
			return o[0]
		}
		return lime.SessionEncryptionNone
	}
	firstComp := func(o []lime.SessionCompression) lime.SessionCompression {
		if len(o) > 0 {
			return o[0]
		}
		return lime.SessionCompressionNone
	}
	schemeAware := func(s []lime.AuthenticationScheme, rtAuth lime.Authentication) lime.Authentication {
		for _, x := range s {
			switch x {
			case lime.AuthenticationSchemePlain:
				a := &lime.PlainAuthentication{}
				a.SetPasswordAsBase64("secret")
				return a
			case lime.AuthenticationSchemeKey:
				a := &lime.KeyAuthentication{}
				a.SetKeyAsBase64("key")
				return a
			}
		}
		return &lime.GuestAuthentication{}
	}
	return []ccfg{
		{"none/guest", lime.NoneCompressionSelector, lime.NoneEncryptionSelector, lime.GuestAuthenticator, false},
		{"tls/scheme-aware/tlsconfig", lime.NoneCompressionSelector, lime.TLSEncryptionSelector, schemeAware, true},
		{"first-offered/scheme-aware/no-tlsconfig", firstComp, firstEnc, schemeAware, false},
		{"tls/guest/no-tlsconfig", lime.NoneCompressionSelector, lime.TLSEncryptionSelector, lime.GuestAuthenticator, false},
	}
}

type ev struct {
	kind string
	dir  string // "S" server->client, "C" client->server
	m    map[string]interface{}
	in   string
}

type run struct {
	cfg       ccfg
	trace     []ev
	script    []string
	ret       bool
	retSes    *lime.Session
	retErr    error
	cc        *lime.ClientChannel
	eofSeen   bool
	ctxFired  bool
	afterEst  bool
	estSent   map[string]interface{} // last established envelope sent
	lastSent  *sinput
	viaClient bool
	delivered bool // the client consumed the last server envelope (it answered or returned after it)
}

func body(depth int, cfgs []ccfg, postEst bool, viaClient bool) func(x *harness.X) {
	alpha := salphabet()
	return func(x *harness.X) {
		lib.Reset()
		cfg := cfgs[rt.Choose(len(cfgs))]
		r := &run{cfg: cfg}
		x.Vars["run"] = r
		cconn, sconn := rt.Pipe(64 << 10)
		cconn.Name, sconn.Name = "client", "server"
		tcp := &lime.TCPConfig{}
		if cfg.tls {
			tcp.TLSConfig = lib.TLSClientConfig()
		}
		tr := lime.NewTCPTransportFromConn(cconn, tcp, false)
		ctx, cancel := context.WithTimeout(context.Background(), 60*time.Second)
		defer cancel()
		if viaClient {
			// the high-level Client: its factory yields this one connection, later dials are refused
			r.viaClient = true
			used := false
			ccfg := lime.NewClientConfig()
			ccfg.Node = lime.Node{Identity: lime.Identity{Name: "alice", Domain: "cli.test"}, Instance: "home"}
			ccfg.ChannelBufferSize = 1
			ccfg.CompSelector, ccfg.EncryptSelector, ccfg.Authenticator = cfg.comp, cfg.enc, cfg.auth
			ccfg.NewTransport = func(context.Context) (lime.Transport, error) {
				if used {
					return nil, errors.New("connection refused")
				}
				used = true
				return tr, nil
			}
			client := lime.NewClient(ccfg, &lime.EnvelopeMux{})
			go func() {
				err := client.Establish(ctx)
				r.retErr, r.ret = err, true
				x.Obs("Client.Establish returned err=%v", err != nil)
			}()
		} else {
			cc := lime.NewClientChannel(tr, 1)
			r.cc = cc
			go func() {
				ses, err := cc.EstablishSession(ctx, cfg.comp, cfg.enc, lime.Identity{Name: "alice", Domain: "cli.test"}, cfg.auth, "home")
				r.retSes, r.retErr, r.ret = ses, err, true
				x.Obs("establish returned err=%v state=%v", err != nil, stateOf(ses))
			}()
		}
		peer := lib.NewRawPeer(sconn)
		collect := func() {
			for {
				m, ok := peer.ReadOne(30 * time.Second)
				if !ok {
					break
				}
				r.trace = append(r.trace, ev{dir: "C", m: m})
				x.Obs("  client sent state=%v id=%v auth=%v", m["state"], m["id"], m["authentication"] != nil)
			}
			if peer.EOF || peer.Err != nil {
				r.eofSeen = true
			}
		}
		collect() // the client's first envelope
		for step := 0; step < depth; step++ {
			if r.eofSeen {
				break
			}
			if r.ret && !(postEst && stateOf(r.retSes) == "established" && !r.afterEst) {
				break
			}
			if r.ret {
				r.afterEst = true
			}
			in := alpha[rt.Choose(len(alpha))]
			r.script = append(r.script, in.name)
			x.Obs("step %d server sends %s", step, in.name)
			switch in.kind {
			case "close":
				_ = peer.Conn.Close()
				rt.Quiesce()
				step = depth
				continue
			case "silence":
				// nothing is sent: the client's context deadline has to end the call
				time.Sleep(70 * time.Second)
				r.ctxFired = true
				collect()
				step = depth
				continue
			}
			b := in.bytes()
			_ = peer.Send(b)
			var m map[string]interface{}
			_ = json.Unmarshal(b, &m)
			r.trace = append(r.trace, ev{dir: "S", m: m, in: in.name, kind: in.kind})
			inCopy := in
			r.lastSent = &inCopy
			if in.kind == "session" && in.state == "established" {
				r.estSent = m
			}
			// a confirmed tls negotiation: the scripted server upgrades when the
			// client starts a TLS handshake (it does if it has a TLS config)
			if in.name == "neg-confirm(tls)" && peer.Conn == peer.Raw {
				rt.Quiesce()
				if sconn.Readable() && !r.ret {
					if err := peer.StartTLSServer(); err != nil {
						x.Obs("  server tls handshake failed")
						_ = sconn.Close()
						break
					}
					x.Obs("  tls up")
				}
			}
			collect()
		}
		// end of script: wait for the call to return (context deadline at the latest)
		if !r.ret {
			time.Sleep(70 * time.Second)
			r.ctxFired = true
		}
		collect()
		rt.Quiesce()
		x.Obs("end ret=%v eof=%v", r.ret, r.eofSeen)
		rt.Stop()
	}
}

func stateOf(s *lime.Session) string {
	if s == nil {
		return ""
	}
	return string(s.State)
}

func final(x *harness.X, res *rt.Result) {
	r, _ := x.Vars["run"].(*run)
	if r == nil {
		return
	}
	script := fmt.Sprintf("[client cfg %s; server: %s]", r.cfg.name, strings.Join(r.script, " -> "))
	if res.Crash != "" {
		x.Failf("panic:"+res.CrashSite, "%s %s", strings.SplitN(res.Crash, "\n", 2)[0], script)
		return
	}
	if !r.ret {
		x.Failf("no-return", "EstablishSession did not return although its context ended (alive: %v) %s", res.AliveSummary(), script)
		return
	}
	// walk the interleaved trace
	latestSrvID := ""
	haveSrv := false
	var lastSrvSession map[string]interface{}
	prevWasAuthReq := false
	firstClient := true
	for _, e := range r.trace {
		if e.dir == "S" {
			if _, ok := e.m["state"]; ok && e.kind == "session" {
				latestSrvID = lib.Str(e.m, "id")
				haveSrv = true
				lastSrvSession = e.m
				prevWasAuthReq = lib.Str(e.m, "state") == "authenticating"
			} else {
				prevWasAuthReq = false
			}
			continue
		}
		if firstClient {
			firstClient = false
			if lib.Str(e.m, "state") != "new" {
				x.Failf("first-not-new", "client's first envelope is %v %s", e.m, script)
			}
			continue
		}
		if haveSrv && lib.Str(e.m, "id") != latestSrvID {
			x.Failf("id-not-echoed", "client envelope %v carries id %q, the server's latest session envelope had id %q %s", e.m["state"], lib.Str(e.m, "id"), latestSrvID, script)
		}
		if e.m["authentication"] != nil && !prevWasAuthReq {
			x.Failf("credentials-unsolicited", "client sent credentials although the server's previous envelope was not an authentication request %s", script)
		}
		prevWasAuthReq = false
	}
	if r.viaClient {
		// Client.Establish reports success only when the server's last word was an established session
		lw := ""
		if lastSrvSession != nil {
			lw = lib.Str(lastSrvSession, "state")
		}
		if r.retErr == nil && lw != "established" {
			x.Failf("client-establish-untruthful", "Client.Establish returned nil but the server's last word was %q %s", lw, script)
		}
		return
	}
	// truthful establishment
	reported := r.retErr == nil && stateOf(r.retSes) == "established"
	lastWord := ""
	if lastSrvSession != nil {
		lastWord = lib.Str(lastSrvSession, "state")
	}
	if !r.afterEst {
		if reported && lastWord != "established" {
			x.Failf("established-untruthful", "EstablishSession reported established but the server's last word was %q %s", lastWord, script)
		}
		if r.cc.Established() && lastWord != "established" {
			x.Failf("established-untruthful-channel", "channel reports Established() but the server's last word was %q %s", lastWord, script)
		}
		if reported && r.estSent != nil {
			if r.cc.ID() != lib.Str(r.estSent, "id") {
				x.Failf("adopted-id", "ID()=%q, established envelope had %q %s", r.cc.ID(), lib.Str(r.estSent, "id"), script)
			}
			if r.cc.LocalNode().String() != lib.Str(r.estSent, "to") {
				x.Failf("adopted-local-node", "LocalNode()=%q, established envelope was addressed to %q %s", r.cc.LocalNode(), lib.Str(r.estSent, "to"), script)
			}
			if r.cc.RemoteNode().String() != lib.Str(r.estSent, "from") {
				x.Failf("adopted-remote-node", "RemoteNode()=%q, established envelope came from %q %s", r.cc.RemoteNode(), lib.Str(r.estSent, "from"), script)
			}
		}
	}
	// closes on finished/failed (during establishment; what happens to an
	// established session that the server ends is C13's subject)
	if !r.afterEst {
		for _, e := range r.trace {
			if e.dir != "S" {
				continue
			}
			st := lib.Str(e.m, "state")
			if (st == "finished" || st == "failed") && !r.eofSeen {
				x.Failf("no-close-on-"+st, "server answered %s but the client did not close its connection %s", st, script)
			}
		}
	}
}

func main() {
	opt := rt.Options{Horizon: 400 * time.Second, MaxSteps: 100000, NoTimerDeviation: true}
	all := clientConfigs()
	mk := func(name string, depth int, cfgs []ccfg, post bool, q, t int) harness.Scenario {
		return harness.Scenario{Name: name, Opt: opt, Quick: q, Thorough: t, Body: body(depth, cfgs, post, false), Final: final}
	}
	harness.Main(harness.Check{
		Property: "C08",
		Level:    "model_checking",
		Rule:     "script tree: client configuration (4 selector/authenticator/TLS-capability combinations) x server script over a 26-symbol alphabet (every session state incl. regressions, id variants, option lists, confirmations, scheme lists, round-trip data, data envelopes, undecodable bytes, disconnect, silence until the context deadline) to the stated depth; each path is one execution of the real ClientChannel.EstablishSession (and, in the client/ scenarios, of Client.Establish with a one-connection transport factory) over a virtual connection (real TLS when confirmed); distinct outcome = distinct observation log",
		Assume:   []string{"selector and authenticator callbacks return normally (the statement's own proviso)", "TCP transport over a virtual pipe", "deviation bound 0 (lock-step exchange); bound 1 with preemptions only on the depth-3 tree in thorough"},
		Scenarios: []harness.Scenario{
			mk("channel/d5", 5, all, false, 0, -1),
			mk("channel/d6", 6, all, false, -1, 0),
			mk("channel/d3/post-established", 3, all, true, 0, -1),
			mk("channel/d4/post-established", 4, all, true, -1, 0),
			mk("channel/d3/k1", 3, all[:2], false, -1, 1),
			{Name: "client/d3", Opt: opt, Quick: 0, Thorough: -1, Body: body(3, all[:1], false, true), Final: final},
			{Name: "client/d4", Opt: opt, Quick: -1, Thorough: 0, Body: body(4, all[:2], false, true), Final: final},
		},
	})
}
