// C13 - sessions end cleanly in both directions and release what waits on
// them. An established pair (real channels; in-process and TCP over virtual
// pipes; channel level and Client/Server level) is ended by one party at a
// moment chosen by the scheduler relative to concurrent traffic; the peer
// keeps consuming, then closes its channel; oracles look at terminal states,
// stream closure, connection closure and the goroutine census.
package main

import (
	"context"
	"fmt"
	"strings"
	"time"

	lime "github.com/takenet/lime-go"
	"verif/gosim/harness"
	"verif/gosim/rt"
	"verif/scen/lib"
)

type st struct {
	kind, who        string
	initErr          error
	initRet          bool
	initSes          *lime.Session
	ccState          lime.SessionState
	scState          lime.SessionState
	ccConnected      bool
	scConnected      bool
	ccRcvDone        bool
	scRcvDone        bool
	ccStreams        [4]bool // closed?
	scStreams        [4]bool
	cliConsumerEnded bool
	srvConsumerEnded bool
	finishedCb       int
	estCb            int
	cconn            *rt.Conn
	sconn            *rt.Conn
	srvReplyErr      error
	sendErrs         []string
	got              []string // "<side>:<id>" of every message a stream consumer received
	srvSentOK        []string // ids of the server's messages whose send reported success
	closeErr         error
	snap             bool
}

type streams interface {
	MsgChan() <-chan *lime.Message
	NotChan() <-chan *lime.Notification
	ReqCmdChan() <-chan *lime.RequestCommand
	RespCmdChan() <-chan *lime.ResponseCommand
	RcvDone() <-chan struct{}
}

// drain consumes all four streams until every one of them is closed.
func drain(x *harness.X, name string, ch streams, closed *[4]bool, ended *bool) {
	m, n, q, p := ch.MsgChan(), ch.NotChan(), ch.ReqCmdChan(), ch.RespCmdChan()
	for m != nil || n != nil || q != nil || p != nil {
		select {
		case msg, ok := <-m:
			if !ok {
				closed[0], m = true, nil
			} else {
				x.Obs("%s got message", name)
				if st, _ := x.Vars["st"].(*st); st != nil {
					st.got = append(st.got, name+":"+msg.ID)
				}
			}
		case _, ok := <-n:
			if !ok {
				closed[1], n = true, nil
			}
		case _, ok := <-q:
			if !ok {
				closed[2], q = true, nil
			}
		case _, ok := <-p:
			if !ok {
				closed[3], p = true, nil
			}
		}
	}
	*ended = true
	x.Obs("%s streams all closed", name)
}

func isClosed(c <-chan struct{}) bool {
	select {
	case <-c:
		return true
	default:
		return false
	}
}

// channel-level scenarios: who ∈ client-finish, server-finish, server-fail
func chanBody(kind, who string, pipeCap int, traffic, muxConsumer bool) func(x *harness.X) {
	return func(x *harness.X) {
		lib.Reset()
		s := &st{kind: kind, who: who}
		x.Vars["st"] = s
		chanBuf := rt.Choose(2)
		buf := pipeCap
		if kind == "inproc" {
			buf = rt.Choose(2)
		}
		ct, stp, cconn, sconn := lib.Transports(kind, buf, nil)
		s.cconn, s.sconn = cconn, sconn
		cc, sc, err := lib.EstablishedPair(ct, stp, chanBuf)
		if err != nil {
			x.Failf("setup", "%v", err)
			rt.Stop()
		}
		ctx, cancel := context.WithTimeout(context.Background(), 30*time.Second)
		defer cancel()
		rt.BeginExplore()
		// both sides keep consuming their inbound streams
		if muxConsumer {
			// the client consumes through the library's own dispatch loop
			cmux := &lime.EnvelopeMux{}
			cmux.MessageHandlerFunc(nil, func(ctx context.Context, m *lime.Message, snd lime.Sender) error {
				s.got = append(s.got, "client:"+m.ID)
				return nil
			})
			go func() {
				_ = cmux.ListenClient(context.Background(), cc)
				x.Obs("client dispatch loop returned, state=%v", cc.State())
				// the loop is this client's only consumer while the session lasts; once the
				// receiver is done, what is left in the streams is looked at (they must be closed)
				<-cc.RcvDone()
				drain(x, "client", cc, &s.ccStreams, &s.cliConsumerEnded)
			}()
		} else {
			go drain(x, "client", cc, &s.ccStreams, &s.cliConsumerEnded)
		}
		fromHandler := strings.HasSuffix(who, "-from-handler")
		if !fromHandler {
			go drain(x, "server", sc, &s.scStreams, &s.srvConsumerEnded)
		}
		if traffic {
			go func() {
				n := 1
				if muxConsumer {
					n = 4 // more than the client's buffers hold
				}
				for i := 1; i <= n; i++ {
					if err := sc.SendMessage(ctx, lib.Msg(fmt.Sprint("s-", i), "from server")); err != nil {
						s.sendErrs = append(s.sendErrs, "server:"+err.Error())
						return
					}
					s.srvSentOK = append(s.srvSentOK, fmt.Sprint("s-", i))
				}
			}()
			go func() {
				if err := cc.SendMessage(ctx, lib.Msg("c-1", "from client")); err != nil {
					s.sendErrs = append(s.sendErrs, "client:"+err.Error())
				}
			}()
		}
		switch who {
		case "client-finish":
			// the serving side answers a finishing request like Server.handleChannel does
			go func() {
				<-sc.RcvDone()
				if sc.Established() {
					fctx, c2 := context.WithTimeout(context.Background(), time.Second)
					defer c2()
					s.srvReplyErr = sc.FinishSession(fctx)
					x.Obs("server replied finished err=%v", s.srvReplyErr != nil)
				}
			}()
			go func() {
				s.initSes, s.initErr = cc.FinishSession(ctx)
				s.initRet = true
				x.Obs("client FinishSession returned err=%v", s.initErr != nil)
			}()
		case "server-finish":
			go func() {
				s.initErr = sc.FinishSession(ctx)
				s.initRet = true
				x.Obs("server FinishSession returned err=%v", s.initErr != nil)
			}()
		case "server-fail":
			go func() {
				s.initErr = sc.FailSession(ctx, &lime.Reason{Code: 42, Description: "bye"})
				s.initRet = true
				x.Obs("server FailSession returned err=%v", s.initErr != nil)
			}()
		case "server-fail-from-handler", "server-finish-from-handler":
			// the server's only consumer ends the session while handling the first
			// message (as a handler returning an error makes Server do) and consumes
			// nothing afterwards; the client keeps streaming meanwhile
			go func() {
				for i := 0; i < 3; i++ {
					if err := cc.SendMessage(ctx, lib.Msg(fmt.Sprint("c-", i), "stream")); err != nil {
						return
					}
				}
			}()
			go func() {
				if _, ok := <-sc.MsgChan(); !ok {
					return
				}
				x.Obs("server consumer got the first message and ends the session")
				if who == "server-fail-from-handler" {
					s.initErr = sc.FailSession(ctx, &lime.Reason{Code: 42, Description: "bye"})
				} else {
					s.initErr = sc.FinishSession(ctx)
				}
				s.initRet = true
				s.srvConsumerEnded = true
				x.Obs("server terminating call returned err=%v", s.initErr != nil)
			}()
		}
		// the observing side closes its channel once its streams have ended
		if who != "client-finish" {
			go func() {
				<-cc.RcvDone()
				s.closeErr = cc.Close()
				x.Obs("client closed its channel")
			}()
		}
		settle(kind)
		rt.EndExplore()
		s.ccState, s.scState = cc.State(), sc.State()
		s.ccConnected, s.scConnected = ct.Connected(), stp.Connected()
		s.ccRcvDone, s.scRcvDone = isClosed(cc.RcvDone()), isClosed(sc.RcvDone())
		s.snap = true
		x.Obs("end cc=%v sc=%v", s.ccState, s.scState)
		rt.Stop()
	}
}

// stalledPeerBody: the peer application consumes nothing, so its receiver is stuck on the
// first data envelope and stops reading the connection; the server then ends the session
// with a one-second budget, as Server.handleChannel does. The farewell cannot be delivered,
// but the terminating call must still end the session on its own side and close its connection.
func stalledPeerBody(kind, how string) func(x *harness.X) {
	return func(x *harness.X) {
		lib.Reset()
		s := &st{kind: kind, who: "server-" + how + "/peer-not-consuming"}
		x.Vars["st"] = s
		buf := 64
		if kind == "inproc" {
			buf = rt.Choose(2)
		}
		ct, stp, cconn, sconn := lib.Transports(kind, buf, nil)
		s.cconn, s.sconn = cconn, sconn
		cc, sc, err := lib.EstablishedPair(ct, stp, 0)
		if err != nil {
			x.Failf("setup", "%v", err)
			rt.Stop()
		}
		go drain(x, "server", sc, &s.scStreams, &s.srvConsumerEnded)
		mctx, mc := context.WithTimeout(context.Background(), 20*time.Second)
		defer mc()
		if err := sc.SendMessage(mctx, lib.Msg("s-1", "nobody will consume this")); err != nil {
			x.Failf("setup", "first message: %v", err)
			rt.Stop()
		}
		rt.Quiesce()
		rt.BeginExplore()
		if how == "close" {
			// the application closes its channel while one of its own sends is blocked on the
			// peer: Close must return, and release the blocked sender
			go func() {
				sctx, c3 := context.WithTimeout(context.Background(), 40*time.Second)
				defer c3()
				err := sc.SendMessage(sctx, lib.Msg("s-2", strings.Repeat("x", 300)))
				x.Obs("blocked send returned err=%v", err != nil)
			}()
			rt.Quiesce()
		}
		go func() {
			fctx, c2 := context.WithTimeout(context.Background(), time.Second)
			defer c2()
			if how == "close" {
				s.initErr = sc.Close()
			} else if how == "finish" {
				s.initErr = sc.FinishSession(fctx)
			} else {
				s.initErr = sc.FailSession(fctx, &lime.Reason{Code: 42, Description: "bye"})
			}
			s.initRet = true
			x.Obs("server terminating call returned err=%v", s.initErr != nil)
		}()
		for i := 0; i < 3; i++ {
			rt.Quiesce()
			time.Sleep(6 * time.Second)
		}
		rt.Quiesce()
		rt.EndExplore()
		s.scState = sc.State()
		s.scConnected = stp.Connected()
		s.scRcvDone = isClosed(sc.RcvDone())
		x.Obs("end sc=%v connected=%v", s.scState, s.scConnected)
		_ = cc.Close()
		for i := 0; i < 2; i++ {
			rt.Quiesce()
			time.Sleep(6 * time.Second)
		}
		rt.Quiesce()
		s.snap = true
		rt.Stop()
	}
}

func stalledPeerFinal(x *harness.X, res *rt.Result) {
	if res.Crash != "" {
		x.Failf("crash:"+res.CrashSite, "%s", strings.SplitN(res.Crash, "\n", 2)[0])
		return
	}
	s, _ := x.Vars["st"].(*st)
	if s == nil || !s.snap {
		return
	}
	tag := s.who + ":" + s.kind
	hist := fmt.Sprintf("[%s; %s]", tag, strings.Join(x.Log(), " | "))
	if !s.initRet {
		x.Failf("initiator-blocked:"+tag, "the terminating call never returned %s", hist)
		return
	}
	if !strings.Contains(s.who, "server-close") && s.scState != lime.SessionStateFinished && s.scState != lime.SessionStateFailed {
		x.Failf("initiator-state:"+tag, "the server ended the session but its state is %v %s", s.scState, hist)
	}
	if s.scConnected || (s.sconn != nil && !s.sconn.IsClosed()) {
		x.Failf("initiator-connection-open:"+tag, "the terminating call returned but the server's connection is still open %s", hist)
	}
	if !s.scRcvDone || !s.srvConsumerEnded {
		x.Failf("initiator-streams:"+tag, "server receiver done=%v, stream consumer returned=%v %s", s.scRcvDone, s.srvConsumerEnded, hist)
	}
	for _, g := range res.Alive {
		if g.Name == "main" {
			continue
		}
		x.Failf("goroutine-left:"+g.Name+"["+g.PendTag()+"]:"+tag, "goroutine %s (%s) is left behind after both channels were closed %s", g.Name, g.PendTag(), hist)
	}
}

// topBody: termination through the high-level Client.Close / Server.Close over
// the real TCP transport (virtual pipes) and the in-process transport.
func topBody(kind, who string) func(x *harness.X) {
	return func(x *harness.X) {
		lib.Reset()
		s := &st{kind: kind, who: who}
		x.Vars["st"] = s
		withTraffic := rt.Choose(2) == 1
		cfg := lime.NewServerConfig()
		cfg.Node = lib.ServerNode
		cfg.SchemeOpts = []lime.AuthenticationScheme{lime.AuthenticationSchemeGuest}
		cfg.EncryptOpts = []lime.SessionEncryption{lime.SessionEncryptionNone}
		cfg.Backlog, cfg.ChannelBufferSize = 1, rt.Choose(2)
		cfg.Authenticate, cfg.Register = lib.GuestOK, lib.RegisterSame
		var srvChan *lime.ServerChannel
		cfg.Established = func(id string, c *lime.ServerChannel) { s.estCb++; srvChan = c; x.Obs("established-callback") }
		cfg.Finished = func(id string) { s.finishedCb++; x.Obs("finished-callback") }
		smux := &lime.EnvelopeMux{}
		smux.MessageHandlerFunc(nil, func(ctx context.Context, m *lime.Message, snd lime.Sender) error {
			x.Obs("server handler got %s", m.ID)
			return nil
		})
		pl := lib.NewPipeListener(nil, 64<<10, 1)
		inaddr := lime.InProcessAddr("c13top")
		var bl lime.BoundListener
		if kind != "inproc" {
			bl = lime.NewBoundListener(pl, lib.PipeAddr("p"))
		} else {
			bl = lime.NewBoundListener(lime.NewInProcessTransportListener(inaddr), inaddr)
		}
		srv := lime.NewServer(cfg, smux, bl)
		lasDone := make(chan struct{})
		go func() { _ = srv.ListenAndServe(); close(lasDone) }()
		cmux := &lime.EnvelopeMux{}
		cmux.MessageHandlerFunc(nil, func(ctx context.Context, m *lime.Message, snd lime.Sender) error {
			x.Obs("client handler got %s", m.ID)
			return nil
		})
		ccfg := lime.NewClientConfig()
		ccfg.Node = lime.Node{Identity: lime.Identity{Name: "alice", Domain: "cli.test"}, Instance: "i"}
		ccfg.ChannelBufferSize = rt.Choose(2)
		ccfg.CompSelector, ccfg.EncryptSelector, ccfg.Authenticator = lime.NoneCompressionSelector, lime.NoneEncryptionSelector, lime.GuestAuthenticator
		dials := 0
		ccfg.NewTransport = func(ctx context.Context) (lime.Transport, error) {
			dials++
			if dials > 1 {
				return nil, fmt.Errorf("connection refused")
			}
			if kind != "inproc" {
				t, c := pl.DialKind(kind)
				s.cconn = c
				return t, nil
			}
			t, ok := lib.TryDialInProc(inaddr, 1)
			if !ok {
				return nil, fmt.Errorf("connection refused")
			}
			return t, nil
		}
		client := lime.NewClient(ccfg, cmux)
		ctx, cancel := context.WithTimeout(context.Background(), 60*time.Second)
		defer cancel()
		if err := client.Establish(ctx); err != nil {
			x.Failf("setup", "client could not establish: %v", err)
			rt.Stop()
		}
		rt.Quiesce()
		if kind != "inproc" && len(pl.Servers) > 0 {
			s.sconn = pl.Servers[0]
		}
		if rt.Choose(2) == 1 {
			// the session is not brand new when it ends
			time.Sleep(2 * time.Second)
			x.Obs("session aged 2s")
		}
		rt.BeginExplore()
		if withTraffic {
			go func() {
				// more than the client's buffers hold, so that some are still in flight
				for i := 1; i <= 3 && srvChan != nil; i++ {
					if err := srvChan.SendMessage(ctx, lib.Msg(fmt.Sprint("s-", i), "from server")); err != nil {
						return
					}
				}
			}()
			go func() {
				// a short deadline: once the server is gone the client would otherwise keep
				// re-dialling (refused) for as long as this context lives
				sctx, c2 := context.WithTimeout(context.Background(), 3*time.Second)
				defer c2()
				_ = client.SendMessage(sctx, lib.Msg("c-1", "from client"))
			}()
		}
		switch who {
		case "Client.Close":
			go func() {
				s.initErr = client.Close()
				s.initRet = true
				x.Obs("Client.Close returned err=%v", s.initErr != nil)
			}()
		case "Server.Close":
			go func() {
				s.initErr = srv.Close()
				s.initRet = true
				x.Obs("Server.Close returned err=%v", s.initErr != nil)
			}()
		}
		for i := 0; i < 3; i++ {
			rt.Quiesce()
			time.Sleep(6 * time.Second)
		}
		rt.Quiesce()
		rt.EndExplore()
		if srvChan != nil {
			s.scState = srvChan.State()
		}
		// release the other high-level endpoint too, then nothing may be left at all
		if who == "Client.Close" {
			_ = srv.Close()
		} else {
			_ = client.Close()
		}
		for i := 0; i < 2; i++ {
			rt.Quiesce()
			time.Sleep(6 * time.Second)
		}
		rt.Quiesce()
		s.snap = true
		rt.Stop()
	}
}

func topFinal(x *harness.X, res *rt.Result) {
	if res.Crash != "" {
		x.Failf("crash:"+res.CrashSite, "%s", strings.SplitN(res.Crash, "\n", 2)[0])
		return
	}
	s, _ := x.Vars["st"].(*st)
	if s == nil || !s.snap {
		return
	}
	tag := s.who + ":" + s.kind
	hist := fmt.Sprintf("[%s; %s]", tag, strings.Join(x.Log(), " | "))
	if !s.initRet {
		x.Failf("initiator-blocked:"+tag, "%s never returned %s", s.who, hist)
	}
	if s.scState != lime.SessionStateFinished {
		x.Failf("server-state:"+tag, "the server side of the session ended in state %v, expected finished %s", s.scState, hist)
	}
	if s.estCb != 1 || s.finishedCb != 1 {
		x.Failf(fmt.Sprintf("callbacks:est%d-fin%d:%s", s.estCb, s.finishedCb, tag), "Established fired %d times, Finished %d times for the one session %s", s.estCb, s.finishedCb, hist)
	}
	for _, g := range res.Alive {
		if g.Name == "main" {
			continue
		}
		x.Failf("goroutine-left:"+g.Name+"["+g.PendTag()+"]:"+tag, "goroutine %s (%s) is left behind after both endpoints were closed %s", g.Name, g.PendTag(), hist)
	}
	if s.cconn != nil && s.sconn != nil && (!s.cconn.IsClosed() || !s.sconn.IsClosed()) {
		x.Failf("conn-open:"+tag, "virtual connection not closed on both ends (client %v server %v) %s", s.cconn.IsClosed(), s.sconn.IsClosed(), hist)
	}
}

// servedBody: a real Server serves one client channel (not the high-level Client, so that
// the client's view is observable); the session is brand new or two seconds old; it is
// ended by the client finishing it or by Server.Close; the client keeps draining.
func servedBody(kind, who string) func(x *harness.X) {
	return func(x *harness.X) {
		lib.Reset()
		s := &st{kind: kind, who: who}
		x.Vars["st"] = s
		aged := rt.Choose(2) == 1
		cfg := lime.NewServerConfig()
		cfg.Node = lib.ServerNode
		cfg.SchemeOpts = []lime.AuthenticationScheme{lime.AuthenticationSchemeGuest}
		cfg.EncryptOpts = []lime.SessionEncryption{lime.SessionEncryptionNone}
		cfg.Backlog, cfg.ChannelBufferSize = 1, rt.Choose(2)
		cfg.Authenticate, cfg.Register = lib.GuestOK, lib.RegisterSame
		cfg.Established = func(id string, c *lime.ServerChannel) { s.estCb++; x.Obs("established-callback") }
		cfg.Finished = func(id string) { s.finishedCb++; x.Obs("finished-callback") }
		pl := lib.NewPipeListener(nil, 64<<10, 1)
		inaddr := lime.InProcessAddr("c13served")
		var bl lime.BoundListener
		if kind != "inproc" {
			bl = lime.NewBoundListener(pl, lib.PipeAddr("p"))
		} else {
			bl = lime.NewBoundListener(lime.NewInProcessTransportListener(inaddr), inaddr)
		}
		srv := lime.NewServer(cfg, &lime.EnvelopeMux{}, bl)
		go func() { _ = srv.ListenAndServe() }()
		var tr lime.Transport
		if kind != "inproc" {
			tr, s.cconn = pl.DialKind(kind)
		} else {
			var ok bool
			if tr, ok = lib.TryDialInProc(inaddr, 1); !ok {
				x.Failf("setup", "in-process dial refused")
				rt.Stop()
			}
		}
		cc := lime.NewClientChannel(tr, rt.Choose(2))
		ctx, cancel := context.WithTimeout(context.Background(), 120*time.Second)
		defer cancel()
		if ses, err := lib.ClientEstablishGuest(ctx, cc, "alice"); err != nil || ses.State != lime.SessionStateEstablished {
			x.Failf("setup", "client could not establish: %v", err)
			rt.Stop()
		}
		rt.Quiesce()
		if kind != "inproc" && len(pl.Servers) > 0 {
			s.sconn = pl.Servers[0]
		}
		if aged {
			time.Sleep(2 * time.Second)
			x.Obs("session aged 2s")
		}
		rt.BeginExplore()
		go drain(x, "client", cc, &s.ccStreams, &s.cliConsumerEnded)
		switch who {
		case "client-finish":
			go func() {
				s.initSes, s.initErr = cc.FinishSession(ctx)
				s.initRet = true
				x.Obs("client FinishSession returned err=%v", s.initErr != nil)
			}()
		case "Server.Close":
			go func() {
				s.initErr = srv.Close()
				s.initRet = true
				x.Obs("Server.Close returned err=%v", s.initErr != nil)
			}()
		}
		for i := 0; i < 3; i++ {
			rt.Quiesce()
			time.Sleep(6 * time.Second)
		}
		rt.Quiesce()
		rt.EndExplore()
		s.ccState = cc.State()
		select {
		case <-cc.RcvDone():
			s.ccRcvDone = true
		default:
		}
		_ = cc.Close()
		_ = srv.Close()
		for i := 0; i < 2; i++ {
			rt.Quiesce()
			time.Sleep(6 * time.Second)
		}
		rt.Quiesce()
		s.snap = true
		rt.Stop()
	}
}

func servedFinal(x *harness.X, res *rt.Result) {
	if res.Crash != "" {
		x.Failf("crash:"+res.CrashSite, "%s", strings.SplitN(res.Crash, "\n", 2)[0])
		return
	}
	s, _ := x.Vars["st"].(*st)
	if s == nil || !s.snap {
		return
	}
	tag := "served/" + s.who + ":" + s.kind
	hist := fmt.Sprintf("[%s; %s]", tag, strings.Join(x.Log(), " | "))
	if !s.initRet {
		x.Failf("initiator-blocked:"+tag, "%s never returned %s", s.who, hist)
	}
	if s.ccState != lime.SessionStateFinished {
		x.Failf("observer-state:"+tag, "the client kept consuming but ended in state %v: it did not observe the finished session envelope %s", s.ccState, hist)
	}
	if !s.ccRcvDone || !s.cliConsumerEnded {
		x.Failf("observer-streams:"+tag, "client receiver done=%v, stream consumer returned=%v %s", s.ccRcvDone, s.cliConsumerEnded, hist)
	}
	if s.estCb != 1 || s.finishedCb != 1 {
		x.Failf(fmt.Sprintf("callbacks:est%d-fin%d:%s", s.estCb, s.finishedCb, tag), "Established fired %d times, Finished %d times for the one session %s", s.estCb, s.finishedCb, hist)
	}
	for _, g := range res.Alive {
		if g.Name == "main" {
			continue
		}
		x.Failf("goroutine-left:"+g.Name+"["+g.PendTag()+"]:"+tag, "goroutine %s (%s) is left behind after both endpoints were closed %s", g.Name, g.PendTag(), hist)
	}
	if s.cconn != nil && s.sconn != nil && (!s.cconn.IsClosed() || !s.sconn.IsClosed()) {
		x.Failf("conn-open:"+tag, "virtual connection not closed on both ends (client %v server %v) %s", s.cconn.IsClosed(), s.sconn.IsClosed(), hist)
	}
}

func settle(kind string) {
	if kind == "tcp" {
		// pollers notice closure at their 5s I/O timeout at the latest
		for i := 0; i < 4; i++ {
			rt.Quiesce()
			time.Sleep(6 * time.Second)
		}
	}
	rt.Quiesce()
}

func final(x *harness.X, res *rt.Result) {
	if res.Crash != "" {
		x.Failf("crash:"+res.CrashSite, "%s", strings.SplitN(res.Crash, "\n", 2)[0])
		return
	}
	s, _ := x.Vars["st"].(*st)
	if s == nil || !s.snap {
		return
	}
	tag := s.who + ":" + s.kind
	hist := fmt.Sprintf("[%s; %s]", tag, strings.Join(x.Log(), " | "))
	if !s.initRet {
		x.Failf("initiator-blocked:"+tag, "the terminating call never returned %s", hist)
	}
	var wantC, wantS lime.SessionState
	switch s.who {
	case "client-finish", "server-finish", "server-finish-from-handler":
		wantC, wantS = lime.SessionStateFinished, lime.SessionStateFinished
	case "server-fail", "server-fail-from-handler":
		wantC, wantS = lime.SessionStateFailed, lime.SessionStateFailed
	}
	// initiator: terminal state, connection closed by the terminating call
	if s.who == "client-finish" {
		// (whether FinishSession also returns nil is not part of the statement;
		// what counts is the terminal state and the closed connection)
		if s.ccState != wantC {
			x.Failf("initiator-state:"+tag, "client state is %v after finishing %s", s.ccState, hist)
		}
		if s.ccConnected {
			x.Failf("initiator-connection-open:"+tag, "client transport still connected after FinishSession %s", hist)
		}
		if s.scState != wantS {
			x.Failf("observer-state:"+tag, "server state is %v after answering the finishing request %s", s.scState, hist)
		}
		// traffic in flight towards the finishing client: what the server wrote with success
		// before its farewell reaches the client's streams, since the client keeps consuming
		if s.ccState == wantC && s.cliConsumerEnded {
			for _, id := range s.srvSentOK {
				found := false
				for _, g := range s.got {
					if g == "client:"+id {
						found = true
					}
				}
				if !found {
					x.Failf("in-flight-message-lost:"+tag, "the server sent %s with success before it finished the session, the client kept consuming until its streams were closed and never got it (got %v) %s", id, s.got, hist)
				}
			}
		}
	} else {
		if s.scState != wantS {
			x.Failf("initiator-state:"+tag, "server state is %v %s", s.scState, hist)
		}
		if s.scConnected {
			x.Failf("initiator-connection-open:"+tag, "server transport still connected after the terminating call %s", hist)
		}
		// the observer kept consuming: it must have seen the terminal envelope
		if s.ccState != wantC {
			x.Failf("observer-state:"+tag, "client kept consuming but its state is %v, expected %v %s", s.ccState, wantC, hist)
		}
	}
	if !s.ccRcvDone || !s.scRcvDone {
		x.Failf("rcvdone-open:"+tag, "receiver-done not closed (client %v server %v) %s", s.ccRcvDone, s.scRcvDone, hist)
	}
	if !s.cliConsumerEnded || !s.srvConsumerEnded {
		x.Failf("streams-open:"+tag, "stream consumers did not all return (client closed=%v ended=%v, server closed=%v ended=%v) %s", s.ccStreams, s.cliConsumerEnded, s.scStreams, s.srvConsumerEnded, hist)
	}
	// census: nothing of the session may be left
	for _, g := range res.Alive {
		if g.Name == "main" {
			continue
		}
		x.Failf("goroutine-left:"+g.Name+"["+g.PendTag()+"]:"+tag, "goroutine %s (%s) is left behind %s", g.Name, g.PendTag(), hist)
	}
	if s.cconn != nil && (!s.cconn.IsClosed() || !s.sconn.IsClosed()) {
		x.Failf("conn-open:"+tag, "virtual connection not closed on both ends (client %v server %v) %s", s.cconn.IsClosed(), s.sconn.IsClosed(), hist)
	}
}

func main() {
	opt := rt.Options{NoExplore: true, Horizon: 200 * time.Second, MaxSteps: 80000, BoundAll: true, NoTimerDeviation: true}
	var scs []harness.Scenario
	for _, kind := range []string{"inproc", "tcp", "ws"} {
		for _, who := range []string{"client-finish", "server-finish", "server-fail", "server-fail-from-handler", "server-finish-from-handler"} {
			for _, traffic := range []bool{false, true} {
				if strings.HasSuffix(who, "-from-handler") && traffic {
					continue
				}
				name := fmt.Sprintf("chan/%s/%s", kind, who)
				q, t := 2, 3
				if strings.HasSuffix(who, "-from-handler") {
					q, t = 1, 2
				}
				if traffic {
					name += "/traffic"
					q, t = 1, 2
				}
				scs = append(scs, harness.Scenario{Name: name, Opt: opt, Quick: q, Thorough: t, Prune: true, Body: chanBody(kind, who, 64<<10, traffic, false), Final: final})
			}
		}
	}
	for _, kind := range []string{"inproc", "tcp"} {
		scs = append(scs, harness.Scenario{Name: fmt.Sprintf("chan/%s/client-finish/traffic/dispatch-loop-consumer", kind), Opt: opt, Quick: 1, Thorough: 2, Prune: true, Body: chanBody(kind, "client-finish", 64<<10, true, true), Final: final})
	}
	topOpt := opt
	for _, kind := range []string{"inproc", "tcp", "ws"} {
		for _, who := range []string{"Client.Close", "Server.Close"} {
			scs = append(scs, harness.Scenario{Name: fmt.Sprintf("top/%s/%s", kind, who), Opt: topOpt, Quick: 1, Thorough: 2, Prune: false, Body: topBody(kind, who), Final: topFinal})
		}
	}
	for _, kind := range []string{"inproc", "tcp", "ws"} {
		for _, who := range []string{"client-finish", "Server.Close"} {
			scs = append(scs, harness.Scenario{Name: fmt.Sprintf("served/%s/%s", kind, who), Opt: topOpt, Quick: 1, Thorough: 2, Prune: false, Body: servedBody(kind, who), Final: servedFinal})
		}
	}
	for _, kind := range []string{"inproc", "tcp", "ws"} {
		for _, how := range []string{"finish", "fail", "close"} {
			scs = append(scs, harness.Scenario{Name: fmt.Sprintf("chan/%s/server-%s/peer-not-consuming", kind, how), Opt: topOpt, Quick: 1, Thorough: 2, Prune: false, Body: stalledPeerBody(kind, how), Final: stalledPeerFinal})
		}
	}
	harness.Main(harness.Check{
		Property:  "C13",
		Level:     "model_checking",
		Rule:      "initiator {client finish, server finish, server fail, server finish/fail issued by the server's only consumer while the client keeps streaming} x transport {in-process (queue 0/1), TCP over virtual pipe, WebSocket (gorilla, real opening handshake) over virtual pipe} x channel buffer {0,1} x {idle, one message in flight each way}; both sides keep draining their streams; the observer closes its channel when its receiver is done; plus top-level scenarios: a real Client and a real Server (handlers registered, idle or one message in flight each way), ended by Client.Close or by Server.Close, after which the other endpoint is closed too and nothing at all may be left (the session brand new or two seconds old); and served scenarios: a real Server serving one client channel, session new or two seconds old, ended by the client finishing or by Server.Close, the client's terminal state and streams observed; and a server ending the session with a one-second budget while the peer application consumes nothing (64-byte pipe / in-process queue 0-1), the server's own end observed (also: the server application closing its channel while one of its sends is blocked on that peer); all schedules within the deviation bound (delay bounding); distinct outcome = distinct observation log",
		Assume:    []string{"the WebSocket listener's HTTP server is not part of the exploration: upgraded connections are handed to the real websocketTransport (verif hook)", "the serving side answers a finishing request the way Server.handleChannel does (FinishSession when the receiver is done)"},
		Scenarios: scs,
	})
}
