// C15 - blocking operations honour their context. One context-taking
// operation per execution ("in isolation") is started against a peer that is
// silent / not reading / gone quiet at a chosen handshake stage; its context
// ends by deadline or by cancellation from another goroutine; latency is
// measured on the virtual clock (time only passes when everything is blocked).
package main

import (
	"context"
	"errors"
	"fmt"
	"strings"
	"time"

	lime "github.com/takenet/lime-go"
	"verif/gosim/harness"
	"verif/gosim/rt"
	"verif/scen/lib"
)

type opdef struct {
	name  string
	poll  time.Duration // allowed delay after a cancellation (transport poll interval)
	setup func(x *harness.X) func(ctx context.Context) error
}

type st struct {
	op       string
	mode     string // deadline | cancel
	t0       time.Duration
	t1       time.Duration
	returned bool
	err      error
	poll     time.Duration
	snap     bool
}

var bigText = strings.Repeat("x", 300)

func inprocPair(buf int) (lime.Transport, lime.Transport) {
	c, s, _, _ := lib.Transports("inproc", buf, nil)
	return c, s
}

func tcpPair(cap int, tlsBoth bool) (lime.Transport, lime.Transport, *rt.Conn, *rt.Conn) {
	var cfg *lime.TCPConfig
	return lib.Transports("tcp", cap, cfg)
}

// serveHandshakeUntil runs a scripted server over the raw pipe end that
// answers the client's handshake up to a stage and then goes silent.
func serveHandshakeUntil(sconn *rt.Conn, stage string) {
	p := lib.NewRawPeer(sconn)
	p.Block = true
	go func() {
		if _, ok := p.ReadOne(30 * time.Second); !ok {
			return
		}
		switch stage {
		case "new":
			return // never answers
		case "negotiating", "tls":
			_ = p.Send([]byte(`{"state":"negotiating","id":"S1","from":"postmaster@srv.test/s1","encryptionOptions":["none","tls"],"compressionOptions":["none"]}`))
			if _, ok := p.ReadOne(30 * time.Second); !ok || stage == "negotiating" {
				return
			}
			// confirm tls, then never start the TLS handshake
			_ = p.Send([]byte(`{"state":"negotiating","id":"S1","from":"postmaster@srv.test/s1","encryption":"tls","compression":"none"}`))
		case "authenticating":
			_ = p.Send([]byte(`{"state":"authenticating","id":"S1","from":"postmaster@srv.test/s1","schemeOptions":["guest"]}`))
			_, _ = p.ReadOne(30 * time.Second)
		}
	}()
}

func ops() []opdef {
	est := func(kind string) func() (*lime.ClientChannel, *lime.ServerChannel) {
		return func() (*lime.ClientChannel, *lime.ServerChannel) {
			buf := 0
			if kind != "inproc" {
				buf = 64
			}
			ct, stp, _, _ := lib.Transports(kind, buf, nil)
			cc, sc, err := lib.EstablishedPair(ct, stp, 0)
			if err != nil {
				panic(err)
			}
			return cc, sc
		}
	}
	var l []opdef
	add := func(name string, poll time.Duration, setup func(x *harness.X) func(ctx context.Context) error) {
		l = append(l, opdef{name, poll, setup})
	}
	// ---- transports
	for _, buf := range []int{0, 1} {
		buf := buf
		add(fmt.Sprintf("inproc/transport.Send/queue%d-full", buf), 0, func(x *harness.X) func(context.Context) error {
			c, _ := inprocPair(buf)
			return func(ctx context.Context) error {
				var err error
				for i := 0; i <= buf && err == nil; i++ {
					err = c.Send(ctx, lib.Msg("m", "x"))
				}
				return err
			}
		})
	}
	add("inproc/transport.Receive/silent", 0, func(x *harness.X) func(context.Context) error {
		c, _ := inprocPair(1)
		return func(ctx context.Context) error { _, err := c.Receive(ctx); return err }
	})
	add("inproc/listener.Accept/nobody", 0, func(x *harness.X) func(context.Context) error {
		addr := lime.InProcessAddr("c15")
		l := lime.NewInProcessTransportListener(addr)
		if err := l.Listen(context.Background(), addr); err != nil {
			panic(err)
		}
		return func(ctx context.Context) error { _, err := l.Accept(ctx); return err }
	})
	add("tcp/transport.Send/peer-not-reading", 5*time.Second, func(x *harness.X) func(context.Context) error {
		c, _, _, _ := tcpPair(64, false)
		return func(ctx context.Context) error { return c.Send(ctx, lib.Msg("m", bigText)) }
	})
	add("tcp/transport.Receive/silent", 5*time.Second, func(x *harness.X) func(context.Context) error {
		c, _, _, _ := tcpPair(64, false)
		return func(ctx context.Context) error { _, err := c.Receive(ctx); return err }
	})
	add("ws/transport.Send/peer-not-reading", 0, func(x *harness.X) func(context.Context) error {
		c, _, _, _ := lib.Transports("ws", 64, nil)
		return func(ctx context.Context) error { return c.Send(ctx, lib.Msg("m", bigText)) }
	})
	add("ws/transport.Receive/silent", 0, func(x *harness.X) func(context.Context) error {
		c, _, _, _ := lib.Transports("ws", 64, nil)
		return func(ctx context.Context) error { _, err := c.Receive(ctx); return err }
	})
	add("tcp/transport.Receive/silent-after-an-earlier-receive", 5*time.Second, func(x *harness.X) func(context.Context) error {
		// the transport has been read from a moment ago, under a context without deadline
		c, s, _, _ := tcpPair(64<<10, false)
		if err := s.Send(context.Background(), lib.Msg("first", "x")); err != nil {
			panic(err)
		}
		if _, err := c.Receive(context.Background()); err != nil {
			panic(err)
		}
		return func(ctx context.Context) error { _, err := c.Receive(ctx); return err }
	})
	add("tcp+tls/transport.Send/peer-not-reading", 5*time.Second, func(x *harness.X) func(context.Context) error {
		cconn, sconn := rt.Pipe(64 << 10)
		ct := lime.NewTCPTransportFromConn(cconn, &lime.TCPConfig{TLSConfig: lib.TLSClientConfig()}, false)
		st := lime.NewTCPTransportFromConn(sconn, &lime.TCPConfig{TLSConfig: lib.TLSServerConfig()}, true)
		done := make(chan error, 1)
		go func() { done <- st.SetEncryption(context.Background(), lime.SessionEncryptionTLS) }()
		if err := ct.SetEncryption(context.Background(), lime.SessionEncryptionTLS); err != nil {
			panic(err)
		}
		if err := <-done; err != nil {
			panic(err)
		}
		big := strings.Repeat("x", 200<<10)
		return func(ctx context.Context) error { return ct.Send(ctx, lib.Msg("m", big)) }
	})
	// ---- channel sends and command processing: the peer application consumes nothing
	for _, kind := range []string{"inproc", "tcp", "ws"} {
		kind := kind
		poll := time.Duration(0)
		if kind == "tcp" {
			poll = 5 * time.Second
		}
		for _, what := range []string{"SendMessage", "SendNotification", "SendRequestCommand", "SendResponseCommand"} {
			what := what
			add(kind+"/channel."+what+"/peer-not-consuming", poll, func(x *harness.X) func(context.Context) error {
				cc, _ := est(kind)()
				return func(ctx context.Context) error {
					var err error
					for i := 0; i < 6 && err == nil; i++ {
						switch what {
						case "SendMessage":
							err = cc.SendMessage(ctx, lib.Msg(fmt.Sprint("m", i), bigText))
						case "SendNotification":
							n := lib.Not(fmt.Sprint("n", i), lime.NotificationEventFailed)
							n.Reason = &lime.Reason{Code: 1, Description: bigText}
							err = cc.SendNotification(ctx, n)
						case "SendRequestCommand":
							r := lib.Req(fmt.Sprint("q", i), "/x")
							r.SetMetadataKeyValue("pad", bigText)
							err = cc.SendRequestCommand(ctx, r)
						case "SendResponseCommand":
							r := lib.Resp(fmt.Sprint("r", i))
							r.SetMetadataKeyValue("pad", bigText)
							err = cc.SendResponseCommand(ctx, r)
						}
					}
					if err == nil {
						return errors.New("harness: six sends never blocked")
					}
					return err
				}
			})
		}
		add(kind+"/channel.ProcessCommand/no-response", poll, func(x *harness.X) func(context.Context) error {
			cc, _ := est(kind)()
			return func(ctx context.Context) error { _, err := cc.ProcessCommand(ctx, lib.Req("p1", "/x")); return err }
		})
		add(kind+"/client.FinishSession/server-silent", poll, func(x *harness.X) func(context.Context) error {
			cc, _ := est(kind)()
			return func(ctx context.Context) error { _, err := cc.FinishSession(ctx); return err }
		})
		add(kind+"/server.EstablishSession/client-silent", poll, func(x *harness.X) func(context.Context) error {
			buf := 1
			if kind != "inproc" {
				buf = 64 << 10
			}
			_, stp, _, _ := lib.Transports(kind, buf, nil)
			sc := lime.NewServerChannel(stp, 1, lib.ServerNode, "sid")
			return func(ctx context.Context) error { return lib.ServerEstablishGuest(ctx, sc) }
		})
		// the client presents its new session and then goes silent: the server waits in the
		// authentication phase (no negotiation to do) or for the negotiation choice (tcp, tls on offer)
		for _, stage := range []string{"authentication", "negotiation"} {
			stage := stage
			if stage == "negotiation" && kind != "tcp" {
				continue
			}
			add(kind+"/server.EstablishSession/client-silent-in-"+stage, poll, func(x *harness.X) func(context.Context) error {
				buf := 1
				var cfg *lime.TCPConfig
				if kind != "inproc" {
					buf = 64 << 10
				}
				if kind == "tcp" {
					cfg = &lime.TCPConfig{TLSConfig: lib.TLSServerConfig()}
				}
				ct, stp, _, _ := lib.Transports(kind, buf, cfg)
				sc := lime.NewServerChannel(stp, 1, lib.ServerNode, "sid")
				go func() {
					_ = ct.Send(context.Background(), &lime.Session{State: lime.SessionStateNew})
					for {
						if _, err := ct.Receive(context.Background()); err != nil {
							return
						}
					}
				}()
				enc := []lime.SessionEncryption{lime.SessionEncryptionNone}
				if stage == "negotiation" {
					enc = append(enc, lime.SessionEncryptionTLS)
				}
				return func(ctx context.Context) error {
					return sc.EstablishSession(ctx, []lime.SessionCompression{lime.SessionCompressionNone}, enc,
						[]lime.AuthenticationScheme{lime.AuthenticationSchemeGuest}, lib.GuestOK, lib.RegisterSame)
				}
			})
		}
		add(kind+"/client.EstablishSession/server-silent", poll, func(x *harness.X) func(context.Context) error {
			buf := 1
			if kind != "inproc" {
				buf = 64 << 10
			}
			ct, _, _, _ := lib.Transports(kind, buf, nil)
			cc := lime.NewClientChannel(ct, 1)
			return func(ctx context.Context) error { _, err := lib.ClientEstablishGuest(ctx, cc, "alice"); return err }
		})
	}
	// ---- the high-level Client while no server can be reached: its operations build the channel
	// themselves (with a growing pause between attempts) or wait for the background listener that does
	unreachable := func() *lime.ClientConfig {
		ccfg := lime.NewClientConfig()
		ccfg.Node = lime.Node{Identity: lime.Identity{Name: "alice", Domain: "cli.test"}, Instance: "i"}
		ccfg.ChannelBufferSize = 1
		ccfg.CompSelector, ccfg.EncryptSelector, ccfg.Authenticator = lime.NoneCompressionSelector, lime.NoneEncryptionSelector, lime.GuestAuthenticator
		ccfg.NewTransport = func(context.Context) (lime.Transport, error) { return nil, errors.New("connection refused") }
		return ccfg
	}
	add("client.Establish/server-unreachable", 0, func(x *harness.X) func(context.Context) error {
		client := lime.NewClient(unreachable(), &lime.EnvelopeMux{})
		return func(ctx context.Context) error { return client.Establish(ctx) }
	})
	add("client.SendMessage/server-unreachable", 0, func(x *harness.X) func(context.Context) error {
		client := lime.NewClient(unreachable(), &lime.EnvelopeMux{})
		return func(ctx context.Context) error { return client.SendMessage(ctx, lib.Msg("m", "x")) }
	})
	add("inproc/dial+client.EstablishSession/listener-not-accepting", 0, func(x *harness.X) func(context.Context) error {
		// the listener listens but nobody accepts; one earlier connection is already waiting
		addr := lime.InProcessAddr("c15-busy")
		l := lime.NewInProcessTransportListener(addr)
		if err := l.Listen(context.Background(), addr); err != nil {
			panic(err)
		}
		if _, err := lime.DialInProcess(addr, 1); err != nil {
			panic(err)
		}
		// what Client.buildChannel does: dial, then establish over the new transport
		return func(ctx context.Context) error {
			t, err := lime.DialInProcess(addr, 1)
			if err != nil {
				return err
			}
			_, err = lib.ClientEstablishGuest(ctx, lime.NewClientChannel(t, 1), "alice")
			return err
		}
	})
	add("client.SendMessage/server-gone-listener-retrying", 0, func(x *harness.X) func(context.Context) error {
		// established once; then the server goes away for good and the client's own listener
		// keeps trying to rebuild the channel in the background
		pl := lib.NewPipeListener(nil, 64<<10, 1)
		scfg := lime.NewServerConfig()
		scfg.Node = lib.ServerNode
		scfg.SchemeOpts = []lime.AuthenticationScheme{lime.AuthenticationSchemeGuest}
		scfg.EncryptOpts = []lime.SessionEncryption{lime.SessionEncryptionNone}
		scfg.Backlog, scfg.ChannelBufferSize = 1, 1
		scfg.Authenticate, scfg.Register = lib.GuestOK, lib.RegisterSame
		srv := lime.NewServer(scfg, &lime.EnvelopeMux{}, lime.NewBoundListener(pl, lib.PipeAddr("p")))
		go func() { _ = srv.ListenAndServe() }()
		gone := false
		ccfg := unreachable()
		ccfg.NewTransport = func(context.Context) (lime.Transport, error) {
			if gone {
				return nil, errors.New("connection refused")
			}
			return lime.NewTCPTransportFromConn(pl.Dial(), nil, false), nil
		}
		client := lime.NewClient(ccfg, &lime.EnvelopeMux{})
		ectx, ec := context.WithTimeout(context.Background(), 30*time.Second)
		defer ec()
		if err := client.Establish(ectx); err != nil {
			panic("harness: client could not establish: " + err.Error())
		}
		gone = true
		_ = srv.Close()
		for i := 0; i < 2; i++ {
			rt.Quiesce()
			time.Sleep(6 * time.Second)
		}
		return func(ctx context.Context) error { return client.SendMessage(ctx, lib.Msg("m", "x")) }
	})
	// ---- client establishment stalling at each later stage (TCP, scripted server)
	for _, stage := range []string{"negotiating", "authenticating", "tls"} {
		stage := stage
		add("tcp/client.EstablishSession/server-silent-after-"+stage, 5*time.Second, func(x *harness.X) func(context.Context) error {
			cconn, sconn := rt.Pipe(64 << 10)
			cfg := &lime.TCPConfig{TLSConfig: lib.TLSClientConfig()}
			ct := lime.NewTCPTransportFromConn(cconn, cfg, false)
			cc := lime.NewClientChannel(ct, 1)
			serveHandshakeUntil(sconn, stage)
			return func(ctx context.Context) error {
				_, err := cc.EstablishSession(ctx, lime.NoneCompressionSelector, lime.TLSEncryptionSelector, lime.Identity{Name: "alice", Domain: "cli.test"}, lime.GuestAuthenticator, "home")
				return err
			}
		})
	}
	return l
}

func body(all []opdef) func(x *harness.X) {
	return func(x *harness.X) {
		lib.Reset()
		s := &st{}
		x.Vars["st"] = s
		od := all[rt.Choose(len(all))]
		s.op, s.poll = od.name, od.poll
		s.mode = []string{"deadline", "cancel", "cancel-far-deadline"}[rt.Choose(3)]
		after := []time.Duration{3 * time.Second, 7 * time.Second}[rt.Choose(2)]
		op := od.setup(x)
		rt.Quiesce()
		rt.BeginExplore()
		start := rt.Elapsed()
		var ctx context.Context
		var cancel context.CancelFunc
		if s.mode == "deadline" {
			ctx, cancel = context.WithTimeout(context.Background(), after)
			s.t0 = start + after
		} else {
			if s.mode == "cancel-far-deadline" {
				// cancelled long before its own (far) deadline
				ctx, cancel = context.WithTimeout(context.Background(), 40*time.Second)
			} else {
				ctx, cancel = context.WithCancel(context.Background())
			}
			go func() {
				time.Sleep(after)
				s.t0 = rt.Elapsed()
				x.Obs("cancel at %v", s.t0-start)
				cancel()
			}()
		}
		defer cancel()
		go func() {
			s.err = op(ctx)
			s.t1 = rt.Elapsed()
			s.returned = true
			x.Obs("op returned after %v ctxerr=%v", s.t1-start, errors.Is(s.err, context.Canceled) || errors.Is(s.err, context.DeadlineExceeded))
		}()
		time.Sleep(after + 45*time.Second)
		rt.Quiesce()
		rt.EndExplore()
		s.snap = true
		rt.Stop()
	}
}

func final(x *harness.X, res *rt.Result) {
	s, _ := x.Vars["st"].(*st)
	if s == nil {
		return
	}
	tag := s.op + ":" + s.mode
	if res.Crash != "" {
		x.Failf("panic:"+res.CrashSite+":"+s.op, "%s [%s]", strings.SplitN(res.Crash, "\n", 2)[0], tag)
		return
	}
	if !s.snap {
		return
	}
	if !s.returned {
		x.Failf("never-returned:"+tag, "%s did not return within 45s (virtual) after its context ended (alive: %v)", s.op, res.AliveSummary())
		return
	}
	if s.err == nil {
		x.Failf("no-error:"+tag, "%s returned nil although it could not complete and its context ended", s.op)
		return
	}
	// (the statement asks for an error within the bound; that it also wraps the
	// context's error is usual but not demanded - it is only logged)
	allowed := time.Duration(0)
	if s.mode != "deadline" {
		allowed = s.poll
	}
	if late := s.t1 - s.t0; late > allowed {
		x.Failf("late:"+tag, "%s returned %v after its context ended (allowed %v)", s.op, late, allowed)
	}
}

func main() {
	opt := rt.Options{NoExplore: true, Horizon: 300 * time.Second, MaxSteps: 100000, BoundAll: true, NoTimerDeviation: true}
	all := ops()
	harness.Main(harness.Check{
		Property: "C15",
		Level:    "model_checking",
		Rule:     fmt.Sprintf("%d operation/transport/peer combinations (transport Send/Receive, in-process Accept, the four channel sends and ProcessCommand with a peer that consumes nothing, client FinishSession, the high-level Client's Establish and SendMessage while no server can be reached (alone, and while its background listener keeps retrying), server and client EstablishSession with a silent peer and with a server going silent after negotiation options, after the authentication request and after confirming tls) x {deadline, cancellation by another goroutine, cancellation of a context that also has a far deadline} x {3s, 7s}; one operation per execution; all schedules within the deviation bound (delay bounding); latency measured on the virtual clock, which only advances when every goroutine is blocked; distinct outcome = distinct observation log", len(all)),
		Assume:   []string{"virtual-clock promptness: shows the return does not depend on any timer later than allowed, not wall-clock microseconds", "real TCP/WebSocket listeners' Accept uses OS sockets and is not explored (the repository's own tests cover the deadline case natively); the WebSocket transport itself is (gorilla connections over a virtual pipe)"},
		Scenarios: []harness.Scenario{
			{Name: "isolated-ops", Opt: opt, Quick: 1, Thorough: 2, Prune: false, Body: body(all), Final: final},
		},
	})
}
