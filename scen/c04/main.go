// C04 - established channels deliver every envelope exactly once, intact, in
// order. Real client and server channels over the in-process transport and
// over the real TCP transport on virtual pipes (tiny and large buffers);
// concurrent senders in both directions, one draining consumer per side (in the slow-consumer scenarios the server's starts 22 s late, several transport I/O timeouts long); all
// workloads (kinds, sizes) as data choices x all schedules within the
// deviation bound; oracle = per-(sender,kind) FIFO multiset model.
package main

import (
	"context"
	"fmt"
	"strings"
	"time"

	lime "github.com/takenet/lime-go"
	"verif/gosim/harness"
	"verif/gosim/rt"
	"verif/scen/lib"
)

type rec struct {
	sender string
	kind   int
	id     string
	canon  string
	err    error
}

type side struct {
	name      string
	delivered []rec // what this side's consumer saw
}

type st struct {
	sent     []rec
	cli, srv side
	ccState  lime.SessionState
	scState  lime.SessionState
	stuck    []string
}

var big = strings.Repeat("0123456789", 12)

func mkEnv(kind int, id string) (interface{}, int) {
	switch kind {
	case 0:
		// a forwarded message: it names an originator that is not the sending session's node
		m := lib.Msg(id, "hi")
		m.From = lime.Node{Identity: lime.Identity{Name: "carol", Domain: "elsewhere.test"}, Instance: "x"}
		m.To = lime.Node{Identity: lime.Identity{Name: "dave", Domain: "elsewhere.test"}}
		m.SetMetadataKeyValue("hop", "1")
		return m, 0
	case 1:
		return lib.Msg(id, big), 0
	case 2:
		return lib.Not(id, lime.NotificationEventReceived), 1
	case 3:
		return lib.Req(id, "/x"), 2
	}
	// a failure response, with its reason
	r := lib.Resp(id)
	r.Status = lime.CommandStatusFailure
	r.Reason = &lime.Reason{Code: 61, Description: "no such thing"}
	return r, 3
}

type chanAPI interface {
	SendMessage(context.Context, *lime.Message) error
	SendNotification(context.Context, *lime.Notification) error
	SendRequestCommand(context.Context, *lime.RequestCommand) error
	SendResponseCommand(context.Context, *lime.ResponseCommand) error
	MsgChan() <-chan *lime.Message
	NotChan() <-chan *lime.Notification
	ReqCmdChan() <-chan *lime.RequestCommand
	RespCmdChan() <-chan *lime.ResponseCommand
}

func send(ctx context.Context, x *harness.X, s *st, ch chanAPI, sender string, n int, kind int) {
	id := fmt.Sprintf("%s-%d", sender, n)
	env, k := mkEnv(kind, id)
	r := rec{sender: sender, kind: k, id: id, canon: lib.Canon(env)}
	x.Obs("%s sends %s kind=%d", sender, id, k)
	switch e := env.(type) {
	case *lime.Message:
		r.err = ch.SendMessage(ctx, e)
	case *lime.Notification:
		r.err = ch.SendNotification(ctx, e)
	case *lime.RequestCommand:
		r.err = ch.SendRequestCommand(ctx, e)
	case *lime.ResponseCommand:
		r.err = ch.SendResponseCommand(ctx, e)
	}
	x.Obs("%s sent %s err=%v", sender, id, r.err != nil)
	s.sent = append(s.sent, r)
}

func consume(ctx context.Context, x *harness.X, sd *side, ch chanAPI) {
	for {
		var r rec
		select {
		case <-ctx.Done():
			return
		case m, ok := <-ch.MsgChan():
			if !ok {
				x.Obs("%s: msg stream closed", sd.name)
				return
			}
			r = rec{kind: 0, id: m.ID, canon: lib.Canon(m)}
		case m, ok := <-ch.NotChan():
			if !ok {
				x.Obs("%s: not stream closed", sd.name)
				return
			}
			r = rec{kind: 1, id: m.ID, canon: lib.Canon(m)}
		case m, ok := <-ch.ReqCmdChan():
			if !ok {
				x.Obs("%s: req stream closed", sd.name)
				return
			}
			r = rec{kind: 2, id: m.ID, canon: lib.Canon(m)}
		case m, ok := <-ch.RespCmdChan():
			if !ok {
				x.Obs("%s: resp stream closed", sd.name)
				return
			}
			r = rec{kind: 3, id: m.ID, canon: lib.Canon(m)}
		}
		sd.delivered = append(sd.delivered, r)
		x.Obs("%s got %s", sd.name, r.id)
	}
}

func body(kind string, pipeCap int, twoClientSenders, slowConsumer, idleFirst bool) func(x *harness.X) {
	return func(x *harness.X) {
		lib.Reset()
		s := &st{cli: side{name: "client"}, srv: side{name: "server"}}
		x.Vars["st"] = s
		chanBuf := rt.Choose(2)
		k1, k2, k3 := rt.Choose(5), rt.Choose(5), rt.Choose(5)
		buf := pipeCap
		if kind == "inproc" {
			buf = rt.Choose(2) // transport queue 0 or 1
		}
		ct, stp, _, _ := lib.Transports(kind, buf, nil)
		cc, sc, err := lib.EstablishedPair(ct, stp, chanBuf)
		if err != nil {
			x.Failf("setup", "%v", err)
			rt.Stop()
		}
		ctx, cancel := context.WithCancel(context.Background())
		defer cancel()
		if idleFirst {
			// a session that has been open and idle for longer than any deadline used while
			// establishing it
			time.Sleep(40 * time.Second)
			x.Obs("session idle for 40s")
		}
		rt.BeginExplore()
		go consume(ctx, x, &s.cli, cc)
		go func() {
			if slowConsumer {
				// "any handler speed": the server application is busy for a while (several I/O
				// timeouts of the transports long) before it looks at its inbound streams
				time.Sleep(22 * time.Second)
				x.Obs("server consumer starts late")
			}
			consume(ctx, x, &s.srv, sc)
		}()
		go func() {
			send(ctx, x, s, cc, "c1", 0, k1)
			send(ctx, x, s, cc, "c1", 1, k2)
		}()
		if twoClientSenders {
			go func() {
				send(ctx, x, s, cc, "c2", 0, 0)
				send(ctx, x, s, cc, "c2", 1, 0)
			}()
		}
		go func() {
			send(ctx, x, s, sc, "s1", 0, k3)
			send(ctx, x, s, sc, "s1", 1, 0)
		}()
		if kind == "tcp" || slowConsumer {
			// receivers poll every 5s: give a stalled write the time to resume
			time.Sleep(12 * time.Second)
		}
		if slowConsumer {
			time.Sleep(24 * time.Second)
		}
		rt.Quiesce()
		rt.EndExplore()
		s.ccState, s.scState = cc.State(), sc.State()
		x.Obs("quiescent cc=%v sc=%v", s.ccState, s.scState)
		rt.Stop()
	}
}

func final(x *harness.X, res *rt.Result) {
	if res.Crash != "" {
		x.Failf("crash:"+res.CrashSite, "%s", strings.SplitN(res.Crash, "\n", 2)[0])
		return
	}
	s, _ := x.Vars["st"].(*st)
	if s == nil || s.ccState == "" {
		return
	}
	hist := strings.Join(x.Log(), " | ")
	check := func(to *side, fromPrefix string) {
		// expected: what the other party sent successfully
		exp := map[string]rec{}
		order := map[string][]string{} // sender/kind -> ids in send order
		for _, r := range s.sent {
			if !strings.HasPrefix(r.sender, fromPrefix) {
				continue
			}
			if r.err == nil {
				exp[r.id] = r
				k := fmt.Sprintf("%s/%d", r.sender, r.kind)
				order[k] = append(order[k], r.id)
			}
		}
		seen := map[string]int{}
		got := map[string][]string{}
		for _, d := range to.delivered {
			seen[d.id]++
			e, ok := exp[d.id]
			if !ok {
				// may be an envelope whose Send reported an error but that still went out: not "sent" by the
				// property's definition, so its delivery is not required, but it is not fabricated either
				known := false
				for _, r := range s.sent {
					if r.id == d.id && strings.HasPrefix(r.sender, fromPrefix) {
						known = true
					}
				}
				if !known {
					x.Failf("fabricated:"+to.name, "%s received %s which nobody sent [%s]", to.name, d.id, hist)
				}
				continue
			}
			if seen[d.id] > 1 {
				x.Failf("duplicate:"+to.name, "%s received %s twice [%s]", to.name, d.id, hist)
			}
			if e.canon != d.canon || e.kind != d.kind {
				x.Failf("content:"+to.name, "%s received %s as %s, sent %s [%s]", to.name, d.id, d.canon, e.canon, hist)
			}
			k := fmt.Sprintf("%s/%d", e.sender, e.kind)
			got[k] = append(got[k], d.id)
		}
		for id := range exp {
			if seen[id] == 0 {
				x.Failf("lost:"+to.name, "%s never received %s although its send reported success and the session is still established [%s]", to.name, id, hist)
			}
		}
		for k, ids := range got {
			if strings.Join(ids, ",") != strings.Join(order[k], ",") && len(ids) == len(order[k]) {
				x.Failf("reordered:"+to.name, "%s received %v, sent in order %v [%s]", to.name, ids, order[k], hist)
			}
		}
	}
	// "while a session stays established"
	if s.ccState != lime.SessionStateEstablished || s.scState != lime.SessionStateEstablished {
		return
	}
	check(&s.srv, "c")
	check(&s.cli, "s")
	// the session is still established on both sides, nobody cancelled anything and both
	// applications keep consuming: a send has no reason to fail ("any handler speed")
	for _, r := range s.sent {
		if r.err != nil {
			x.Failf("send-failed-on-healthy-session", "%s's send of %s failed with %q although the session stayed established and its context never ended [%s]", r.sender, r.id, r.err, hist)
		}
	}
	// nobody may be left blocked in a send while both consumers are willing
	for _, g := range res.Alive {
		if strings.Contains(g.Name, "body.func") && (g.PendTag() == "send" || g.PendTag() == "Write" || g.PendTag() == "Lock") {
			x.Failf("sender-blocked:"+g.PendTag(), "a sender is blocked forever (%s) although both sides keep consuming [%s]", g.PendTag(), hist)
		}
	}
}

// dupBody: ids are chosen by the application and need not be unique: two consecutive messages
// with the same id (and different content), then one with another id, each way.
func dupBody(kind string) func(x *harness.X) {
	return func(x *harness.X) {
		lib.Reset()
		s := &st{cli: side{name: "client"}, srv: side{name: "server"}}
		x.Vars["st"] = s
		buf := 64 << 10
		if kind == "inproc" {
			buf = rt.Choose(2)
		}
		ct, stp, _, _ := lib.Transports(kind, buf, nil)
		cc, sc, err := lib.EstablishedPair(ct, stp, rt.Choose(2))
		if err != nil {
			x.Failf("setup", "%v", err)
			rt.Stop()
		}
		ctx, cancel := context.WithCancel(context.Background())
		defer cancel()
		rt.BeginExplore()
		go consume(ctx, x, &s.cli, cc)
		go consume(ctx, x, &s.srv, sc)
		sendAll := func(ch chanAPI, who string) {
			for i, m := range [][2]string{{"same", "first"}, {"same", "second"}, {"other", "third"}} {
				msg := lib.Msg(m[0], m[1])
				r := rec{sender: who, kind: 0, id: fmt.Sprintf("%s#%d", m[0], i), canon: lib.Canon(msg)}
				r.err = ch.SendMessage(ctx, msg)
				s.sent = append(s.sent, r)
			}
		}
		go sendAll(cc, "c1")
		go sendAll(sc, "s1")
		if kind == "tcp" {
			time.Sleep(12 * time.Second)
		}
		rt.Quiesce()
		rt.EndExplore()
		s.ccState, s.scState = cc.State(), sc.State()
		rt.Stop()
	}
}

func dupFinal(x *harness.X, res *rt.Result) {
	if res.Crash != "" {
		x.Failf("crash:"+res.CrashSite, "%s", strings.SplitN(res.Crash, "\n", 2)[0])
		return
	}
	s, _ := x.Vars["st"].(*st)
	if s == nil || s.ccState != lime.SessionStateEstablished || s.scState != lime.SessionStateEstablished {
		return
	}
	for _, d := range []struct {
		to   *side
		from string
	}{{&s.srv, "c1"}, {&s.cli, "s1"}} {
		var want, got []string
		for _, r := range s.sent {
			if r.sender == d.from && r.err == nil {
				want = append(want, r.canon)
			}
		}
		for _, r := range d.to.delivered {
			got = append(got, r.canon)
		}
		if strings.Join(got, " ") != strings.Join(want, " ") {
			x.Failf("repeated-id:"+d.to.name, "%s received %v, sent (all with success) %v: messages that repeat an id are still messages", d.to.name, got, want)
		}
	}
}

func main() {
	base := rt.Options{NoExplore: true, Horizon: 200 * time.Second, MaxSteps: 80000, SpinLimit: 20000, BoundAll: true, NoTimerDeviation: true}
	stall := base
	stall.NoTimerDeviation = false
	mk := func(name, kind string, cap int, two bool, opt rt.Options, q, t int) harness.Scenario {
		return harness.Scenario{Name: name, Opt: opt, Quick: q, Thorough: t, Prune: true, Body: body(kind, cap, two, strings.Contains(name, "slow-consumer"), strings.Contains(name, "idle")), Final: final}
	}
	harness.Main(harness.Check{
		Property: "C04",
		Level:    "model_checking",
		Rule:     "workloads: client sender with 2 envelopes and server sender with 1+1 envelopes, kinds from {small message, message larger than the pipe, notification, request, unmatched response} (125 combinations) x channel buffer {0,1} x transport queue {0,1} (in-process) / pipe capacity {64B, 64KiB} (TCP, WebSocket), optional second client sender; one draining consumer per side; all schedules within the deviation bound (delay bounding); the stall scenarios additionally let an I/O deadline fire early (write stall); a scenario with messages repeating an id; scenarios whose session has been idle for 40 s before the traffic starts; oracle: delivered multiset == successfully sent multiset, equal content, per-(sender,kind) order; distinct outcome = distinct observation log",
		Assume:   []string{"WebSocket: the real websocketTransport over gorilla connections opened by a real handshake on a virtual pipe (the listener's HTTP server and wss are not part of it); TLS is covered by C09/C12", "payload sizes up to 120 bytes against a 64-byte pipe stand for 'larger than the socket buffer'"},
		Scenarios: []harness.Scenario{
			mk("inproc", "inproc", 0, false, base, 1, 2),
			mk("tcp/cap64KiB", "tcp", 64<<10, false, base, 1, 1),
			mk("tcp/cap64B", "tcp", 64, false, base, 1, 1),
			mk("tcp/cap64B/stalls", "tcp", 64, false, stall, 1, 1),
			mk("ws/cap64KiB", "ws", 64<<10, false, base, 1, 1),
			mk("ws/cap64B", "ws", 64, false, base, 1, 1),
			mk("ws/cap64KiB/idle-40s-first", "ws", 64<<10, false, base, 0, 1),
			mk("tcp/cap64KiB/idle-40s-first", "tcp", 64<<10, false, base, 0, 1),
			mk("inproc/idle-40s-first", "inproc", 0, false, base, 0, 1),
			mk("ws/cap64B/slow-consumer", "ws", 64, false, base, 0, 1),
			mk("tcp/cap64B/slow-consumer", "tcp", 64, false, base, 0, 1),
			mk("inproc/slow-consumer", "inproc", 0, false, base, 0, 1),
			{Name: "repeated-ids/inproc", Opt: base, Quick: 1, Thorough: 2, Prune: true, Body: dupBody("inproc"), Final: dupFinal},
			{Name: "repeated-ids/tcp", Opt: base, Quick: 1, Thorough: 2, Prune: true, Body: dupBody("tcp"), Final: dupFinal},
			mk("inproc/2senders", "inproc", 0, true, base, -1, 1),
			mk("tcp/cap64B/2senders", "tcp", 64, true, base, 1, 2),
			mk("ws/cap64B/2senders", "ws", 64, true, base, 1, 1),
		},
	})
}
