// C03: see verif/scen/hsrv (shared server-handshake script tree) and DESIGN.md.
package main

import "verif/scen/hsrv"

func main() { hsrv.Main("C03") }
