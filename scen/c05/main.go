// C05 - command responses are matched to their requests. Concurrent
// ProcessCommand calls with colliding ids run on a real established channel
// against a peer that answers from an enumerated plan (own id, omitted,
// duplicated, unknown id first, deferred); a canceller may end one context at
// any point; all schedules with a bounded number of deviations are explored
// and every history is checked against a pending-command table model.
package main

import (
	"context"
	"errors"
	"fmt"
	"strings"
	"time"

	lime "github.com/takenet/lime-go"
	"verif/gosim/harness"
	"verif/gosim/rt"
	"verif/scen/lib"
)

type call struct {
	n         int
	who       string
	id        string
	started   bool
	returned  bool
	resp      *lime.ResponseCommand
	err       error
	cancelled bool // the harness cancelled this call's context (at some point)
	ctxEnded  bool
	peerSeq   int // index at which the peer received its request (-1: never)
	rejected  bool
	afterRet  []int // calls that had returned before this one started
}

type sent struct {
	seq      int
	id       string
	forCall  int
	afterReq int // number of requests the peer had received when it sent this
}

type st struct {
	calls      []*call
	sent       []sent
	stream     []string // rsp seq values surfaced on RespCmdChan
	received   []int    // call numbers in the order the peer received their requests
	x          *harness.X
	nextSeq    int
	kind       string
	toKind     int       // how the peer addresses its responses: no to / the client's node / its bare identity
	clientNode lime.Node // the node the client was established as
}

func (s *st) newCall(who, id string) *call {
	c := &call{n: len(s.calls), who: who, id: id, peerSeq: -1}
	for _, o := range s.calls {
		if o.returned {
			c.afterRet = append(c.afterRet, o.n)
		}
	}
	s.calls = append(s.calls, c)
	return c
}

func (s *st) process(ctx context.Context, ch *lime.ClientChannel, c *call) {
	req := lib.Req(c.id, "/thing")
	req.SetMetadataKeyValue("call", fmt.Sprint(c.n))
	c.started = true
	s.x.Obs("call %d (%s id=%s) starts", c.n, c.who, c.id)
	c.resp, c.err = ch.ProcessCommand(ctx, req)
	c.returned = true
	c.ctxEnded = ctx.Err() != nil
	if c.err != nil && strings.Contains(c.err.Error(), "already in use") {
		c.rejected = true
	}
	s.x.Obs("call %d returns resp=%s err=%v", c.n, rspSeq(c.resp), c.err != nil)
}

func rspSeq(r *lime.ResponseCommand) string {
	if r == nil {
		return "-"
	}
	return r.ID + "#" + r.Metadata["rsp"]
}

func (s *st) respond(ctx context.Context, sc *lime.ServerChannel, id string, forCall int) {
	r := lib.Resp(id)
	switch s.toKind {
	case 1:
		r.To = s.clientNode
	case 2: // addressed to the identity, without the instance
		r.To = lime.Node{Identity: s.clientNode.Identity}
	}
	r.SetMetadataKeyValue("rsp", fmt.Sprint(s.nextSeq))
	s.sent = append(s.sent, sent{seq: s.nextSeq, id: id, forCall: forCall, afterReq: len(s.received)})
	s.x.Obs("peer sends rsp %s#%d (for call %d)", id, s.nextSeq, forCall)
	s.nextSeq++
	if err := sc.SendResponseCommand(ctx, r); err != nil {
		s.x.Obs("peer send failed")
	}
}

func body(kind string, third bool, planAlpha []int, nplans int) func(x *harness.X) {
	return func(x *harness.X) {
		lib.Reset()
		s := &st{x: x, kind: kind}
		x.Vars["st"] = s
		buf := 1
		if kind != "inproc" {
			buf = 64 << 10
		}
		ct, stp, _, _ := lib.Transports(kind, buf, nil)
		cc, sc, err := lib.EstablishedPair(ct, stp, 1)
		if err != nil {
			x.Failf("setup", "%v", err)
			rt.Stop()
		}
		bg, stopAll := context.WithCancel(context.Background())
		// data choices
		idB := []string{"x", "y", "X"}[rt.Choose(3)] // "X": equal to A's id only under case folding
		withCancel := rt.Choose(2) == 1
		toKinds := 1
		if kind == "inproc" && !third && nplans == 3 {
			toKinds = 3 // the addressing variants are transport independent: one scenario carries them
		}
		s.toKind, s.clientNode = rt.Choose(toKinds), cc.LocalNode()
		var plans []int
		for i := 0; i < nplans; i++ {
			plans = append(plans, planAlpha[rt.Choose(len(planAlpha))])
		}
		rt.BeginExplore()

		// peer: answers each request according to its plan
		peerDone := make(chan struct{})
		go func() {
			defer close(peerDone)
			var deferred []struct {
				id string
				n  int
			}
			for i := 0; ; i++ {
				var req *lime.RequestCommand
				select {
				case <-bg.Done():
					return
				case r, ok := <-sc.ReqCmdChan():
					if !ok {
						return
					}
					req = r
				}
				n := 0
				fmt.Sscan(req.Metadata["call"], &n)
				s.received = append(s.received, n)
				s.calls[n].peerSeq = len(s.received) - 1
				x.Obs("peer got request of call %d", n)
				// deferred responses go out once the next request has arrived
				for _, d := range deferred {
					s.respond(bg, sc, d.id, d.n)
				}
				deferred = nil
				plan := 0
				if i < len(plans) {
					plan = plans[i]
				}
				switch plan {
				case 0:
					s.respond(bg, sc, req.ID, n)
				case 1: // omitted
				case 2: // duplicated
					s.respond(bg, sc, req.ID, n)
					s.respond(bg, sc, req.ID, n)
				case 3: // an unknown id first
					s.respond(bg, sc, "u", -1)
					s.respond(bg, sc, req.ID, n)
				case 4: // deferred until the next request
					deferred = append(deferred, struct {
						id string
						n  int
					}{req.ID, n})
				}
			}
		}()
		// stream reader
		go func() {
			for {
				select {
				case <-bg.Done():
					return
				case r, ok := <-cc.RespCmdChan():
					if !ok {
						return
					}
					s.stream = append(s.stream, rspSeq(r))
					x.Obs("stream surfaced %s", rspSeq(r))
				}
			}
		}()
		// callers
		ctxA, cancelA := context.WithCancel(bg)
		a1 := s.newCall("A", "x")
		b1 := s.newCall("B", idB)
		var c1 *call
		doneA := make(chan struct{})
		doneB := make(chan struct{})
		go func() {
			defer close(doneA)
			s.process(ctxA, cc, a1)
			// second round: the id must be reusable once the first call completed
			a2 := s.newCall("A", "x")
			s.process(bg, cc, a2)
		}()
		go func() {
			defer close(doneB)
			s.process(bg, cc, b1)
		}()
		doneC := make(chan struct{})
		if third {
			c1 = s.newCall("C", "y")
			go func() {
				defer close(doneC)
				s.process(bg, cc, c1)
			}()
		} else {
			close(doneC)
		}
		if withCancel {
			go func() {
				a1.cancelled = true
				x.Obs("cancel A")
				cancelA()
			}()
		}
		// let everything run until nothing can move
		rt.Quiesce()
		rt.EndExplore()
		x.Obs("quiescent")
		// snapshot who is stuck, then release everything
		for _, c := range s.calls {
			if c.started && !c.returned {
				x.Obs("call %d still blocked at quiescence", c.n)
			}
		}
		x.Vars["snapshot"] = snapshot(s)
		_ = stopAll
		rt.Stop() // ends the execution here and now: nothing runs after the snapshot
	}
}

type snap struct {
	returned []bool
}

func snapshot(s *st) *snap {
	sn := &snap{}
	for _, c := range s.calls {
		sn.returned = append(sn.returned, c.returned)
	}
	return sn
}

func final(x *harness.X, res *rt.Result) {
	if res.Crash != "" {
		x.Failf("crash:"+res.CrashSite, "%s", strings.SplitN(res.Crash, "\n", 2)[0])
		return
	}
	s, _ := x.Vars["st"].(*st)
	sn, _ := x.Vars["snapshot"].(*snap)
	if s == nil || sn == nil {
		return
	}
	hist := strings.Join(x.Log(), " | ")
	sentBySeq := map[string]sent{}
	for _, r := range s.sent {
		sentBySeq[fmt.Sprintf("%s#%d", r.id, r.seq)] = r
	}
	used := map[string]int{}
	for i, c := range s.calls {
		if !c.started {
			continue
		}
		ret := sn.returned[i]
		if ret && c.err == nil {
			// (a) a response with the call's own id that the peer really sent, handed to nobody else
			if c.resp == nil {
				x.Failf("nil-response", "call %d returned neither response nor error [%s]", c.n, hist)
				continue
			}
			k := rspSeq(c.resp)
			if c.resp.ID != c.id {
				x.Failf("wrong-id", "call %d (id %s) was completed with response %s [%s]", c.n, c.id, k, hist)
			}
			if _, ok := sentBySeq[k]; !ok {
				x.Failf("fabricated", "call %d returned response %s which the peer never sent [%s]", c.n, k, hist)
			}
			used[k]++
			if used[k] > 1 {
				x.Failf("response-delivered-twice", "response %s was handed to two callers [%s]", k, hist)
			}
		}
		if ret && c.err != nil {
			switch {
			case c.rejected:
				// legitimate only if another call with the same id was pending then:
				// some call with this id that started and had not returned before this one started
				ok := false
				for _, o := range s.calls {
					if o.n != c.n && o.id == c.id && o.started && !contains(c.afterRet, o.n) && o.n < len(s.calls) {
						ok = true
					}
				}
				if !ok {
					x.Failf("id-not-reusable", "call %d (id %s) was rejected as duplicate although every earlier call with that id had completed [%s]", c.n, c.id, hist)
				}
			case errors.Is(c.err, context.Canceled) || errors.Is(c.err, context.DeadlineExceeded):
				if !c.cancelled && strings.Contains(c.err.Error(), "transport: send:") {
					x.Failf("stale-context-error-from-earlier-send:"+s.kind, "call %d failed with %q although its own context is alive: the error of an earlier send whose context had ended is returned again [%s]", c.n, c.err, hist)
				} else if !c.cancelled {
					x.Failf("spurious-context-error", "call %d failed with %v but its context was never cancelled [%s]", c.n, c.err, hist)
				}
			default:
				x.Failf("unexpected-error", "call %d failed with %v [%s]", c.n, c.err, hist)
			}
		}
		if !ret && !c.cancelled {
			// (c) accepted, context alive: must have completed if a response with its id was sent after its request arrived
			if c.peerSeq >= 0 {
				for _, r := range s.sent {
					if r.id == c.id && r.afterReq > c.peerSeq {
						x.Failf("caller-stuck", "call %d (id %s) is blocked forever although response %s#%d was sent after its request arrived [%s]", c.n, c.id, r.id, r.seq, hist)
						break
					}
				}
			}
		}
	}
	// stream accounting
	onStream := map[string]int{}
	for _, k := range s.stream {
		onStream[k]++
		if onStream[k] > 1 {
			x.Failf("surfaced-twice", "response %s surfaced twice on the stream [%s]", k, hist)
		}
		if used[k] > 0 {
			x.Failf("returned-and-surfaced", "response %s was both returned to a caller and surfaced on the stream [%s]", k, hist)
		}
		if _, ok := sentBySeq[k]; !ok {
			x.Failf("fabricated-on-stream", "stream surfaced %s which the peer never sent [%s]", k, hist)
		}
	}
	// (b) a response matching no call must be on the stream exactly once (not lost, not handed over)
	for k, r := range sentBySeq {
		matches := false
		for _, c := range s.calls {
			if c.started && c.id == r.id {
				matches = true
			}
		}
		if !matches && onStream[k] != 1 && res.End != rt.EndCrash {
			x.Failf("unmatched-response-lost", "response %s matches no request but was surfaced %d times [%s]", k, onStream[k], hist)
		}
		if matches && onStream[k] == 0 && used[k] == 0 {
			// may only vanish if a call with that id ended through its context
			okLoss := false
			for _, c := range s.calls {
				if c.id == r.id && c.cancelled {
					okLoss = true
				}
			}
			if !okLoss {
				x.Failf("response-lost", "response %s was neither returned nor surfaced and no call with its id was cancelled [%s]", k, hist)
			}
		}
	}
}

// ---- a slow peer and an ending session ------------------------------------------------------
//
// slowPeerBody: zero-size queues everywhere; the peer takes the first request, waits until
// nothing else can move (the other callers' requests are then stuck in the pipeline, one of
// them inside its send), answers it, and only reads on five seconds later. The first request's
// caller has a two-second deadline: its response was sent at once, so it must get it.
// endingBody: the peer answers the only request and finishes the session right behind it.

type lateCall struct {
	id       string
	deadline time.Duration // 0: none
	resp     *lime.ResponseCommand
	err      error
	retAt    time.Duration
	returned bool
}

type lateState struct {
	what      string
	calls     []*lateCall
	firstID   string
	answerAt  map[string]time.Duration
	snap      bool
	finishErr error
}

func slowPeerBody(x *harness.X) {
	lib.Reset()
	s := &lateState{what: "slow-peer", answerAt: map[string]time.Duration{}}
	x.Vars["late"] = s
	ct, stp, _, _ := lib.Transports("inproc", 0, nil)
	cc, sc, err := lib.EstablishedPair(ct, stp, 0)
	if err != nil {
		x.Failf("setup", "%v", err)
		rt.Stop()
	}
	bg, stopAll := context.WithCancel(context.Background())
	defer stopAll()
	rt.BeginExplore()
	go func() { // the peer
		first := true
		for {
			var req *lime.RequestCommand
			select {
			case <-bg.Done():
				return
			case r, ok := <-sc.ReqCmdChan():
				if !ok {
					return
				}
				req = r
			}
			if first {
				first = false
				s.firstID = req.ID
				rt.Quiesce() // everybody else is stuck somewhere in the pipeline now
			}
			s.answerAt[req.ID] = rt.Elapsed()
			x.Obs("peer answers %s at %v", req.ID, rt.Elapsed())
			_ = sc.SendResponseCommand(bg, lib.Resp(req.ID))
			if req.ID == s.firstID {
				time.Sleep(5 * time.Second) // a slow handler: nothing more is read meanwhile
			}
		}
	}()
	go func() { // nobody else consumes the response stream
		for range cc.RespCmdChan() {
		}
	}()
	for _, id := range []string{"x", "y", "z"} {
		c := &lateCall{id: id, deadline: 2 * time.Second}
		s.calls = append(s.calls, c)
		go func() {
			ctx, cancel := context.WithTimeout(bg, c.deadline)
			defer cancel()
			c.resp, c.err = cc.ProcessCommand(ctx, lib.Req(c.id, "/thing"))
			c.retAt, c.returned = rt.Elapsed(), true
			x.Obs("call %s returns err=%v at %v", c.id, c.err != nil, c.retAt)
		}()
	}
	time.Sleep(20 * time.Second)
	rt.Quiesce()
	rt.EndExplore()
	s.snap = true
	rt.Stop()
}

func endingBody(kind string) func(x *harness.X) {
	return func(x *harness.X) {
		lib.Reset()
		s := &lateState{what: "ending/" + kind, answerAt: map[string]time.Duration{}}
		x.Vars["late"] = s
		buf := rt.Choose(2)
		if kind == "tcp" {
			buf = 64 << 10
		}
		ct, stp, _, _ := lib.Transports(kind, buf, nil)
		cc, sc, err := lib.EstablishedPair(ct, stp, rt.Choose(2))
		if err != nil {
			x.Failf("setup", "%v", err)
			rt.Stop()
		}
		bg, stopAll := context.WithCancel(context.Background())
		defer stopAll()
		rt.BeginExplore()
		go func() {
			req, ok := <-sc.ReqCmdChan()
			if !ok {
				return
			}
			s.firstID = req.ID
			s.answerAt[req.ID] = rt.Elapsed()
			_ = sc.SendResponseCommand(bg, lib.Resp(req.ID))
			fctx, c2 := context.WithTimeout(context.Background(), 5*time.Second)
			defer c2()
			s.finishErr = sc.FinishSession(fctx)
			x.Obs("peer answered and finished the session")
		}()
		c := &lateCall{id: "x", deadline: 30 * time.Second}
		s.calls = append(s.calls, c)
		go func() {
			ctx, cancel := context.WithTimeout(bg, c.deadline)
			defer cancel()
			c.resp, c.err = cc.ProcessCommand(ctx, lib.Req(c.id, "/thing"))
			c.retAt, c.returned = rt.Elapsed(), true
			x.Obs("call %s returns err=%v", c.id, c.err != nil)
		}()
		for i := 0; i < 2; i++ {
			rt.Quiesce()
			time.Sleep(6 * time.Second)
		}
		rt.Quiesce()
		rt.EndExplore()
		s.snap = true
		rt.Stop()
	}
}

func lateFinal(x *harness.X, res *rt.Result) {
	if res.Crash != "" {
		x.Failf("crash:"+res.CrashSite, "%s", strings.SplitN(res.Crash, "\n", 2)[0])
		return
	}
	s, _ := x.Vars["late"].(*lateState)
	if s == nil || !s.snap {
		return
	}
	hist := fmt.Sprintf("[%s; %s]", s.what, strings.Join(x.Log(), " | "))
	for _, c := range s.calls {
		at, answered := s.answerAt[c.id]
		if !answered || c.id != s.firstID {
			continue // only the request that was answered without delay is judged
		}
		switch {
		case !c.returned:
			x.Failf("late:caller-stuck:"+s.what, "call %s never returned although its response was sent at %v %s", c.id, at, hist)
		case c.err != nil && at < c.deadline-500*time.Millisecond:
			x.Failf("late:response-sent-in-time-but-call-failed:"+s.what, "call %s (deadline %v) failed with %q although its response was sent at %v %s", c.id, c.deadline, c.err, at, hist)
		case c.err == nil && (c.resp == nil || c.resp.ID != c.id):
			x.Failf("late:wrong-response:"+s.what, "call %s got %v %s", c.id, c.resp, hist)
		}
	}
}

func contains(l []int, n int) bool {
	for _, x := range l {
		if x == n {
			return true
		}
	}
	return false
}

func main() {
	opt := rt.Options{NoExplore: true, Horizon: 120 * time.Second, MaxSteps: 60000, NoTimerDeviation: true, BoundAll: true}
	full := []int{0, 1, 2, 3, 4}
	small := []int{0, 1, 4}
	mk := func(name, kind string, third bool, alpha []int, np int, q, t int) harness.Scenario {
		return harness.Scenario{Name: name, Opt: opt, Quick: q, Thorough: t, Prune: true, Body: body(kind, third, alpha, np), Final: final}
	}
	harness.Main(harness.Check{
		Property: "C05",
		Level:    "model_checking",
		Rule:     "2-3 concurrent ProcessCommand callers with ids from {x,y,X} (same-id, different-id and differ-only-by-case collisions, second round reusing an id), optional canceller of one context, a stream reader, and a peer that addresses its responses {without to, to the client's node, to its bare identity} and answers each request from the plan {own id, omitted, duplicated, unknown id first, deferred until the next request} - all plan/id combinations as data choices x all schedules within the deviation bound; history checked against a pending-command-table model; plus a slow peer (zero-size queues, the first request answered at once, nothing read for the next five seconds, callers with two-second deadlines) and a peer that answers and finishes the session right behind the response; distinct outcome = distinct observation log",
		Assume:   []string{"channel and transport buffers of size 1 (in-process) / 64KiB pipe (TCP, WebSocket)", "delay bounding: every departure from the default schedule (continue the running goroutine; at a block, the lowest-numbered enabled goroutine) costs one deviation; no I/O stall is injected", "pruning assumes all shared state is reached through hooked operations (the pending-command map is guarded by its RWMutex)"},
		Scenarios: []harness.Scenario{
			mk("inproc/2callers/plans5x3", "inproc", false, full, 3, 1, 1),
			mk("tcp/2callers/plans5x3", "tcp", false, full, 3, 1, 1),
			mk("ws/2callers/plans5x3", "ws", false, full, 3, 1, 1),
			mk("inproc/2callers/plans3x2", "inproc", false, small, 2, -1, 2),
			mk("tcp/2callers/plans3x2", "tcp", false, small, 2, -1, 2),
			mk("inproc/3callers/plans3x3", "inproc", true, small, 3, -1, 1),
			{Name: "slow-peer/3callers-with-deadlines", Opt: opt, Quick: 1, Thorough: 2, Prune: true, Body: slowPeerBody, Final: lateFinal},
			{Name: "response-then-finished/inproc", Opt: opt, Quick: 1, Thorough: 2, Prune: true, Body: endingBody("inproc"), Final: lateFinal},
			{Name: "response-then-finished/tcp", Opt: opt, Quick: 1, Thorough: 2, Prune: true, Body: endingBody("tcp"), Final: lateFinal},
		},
	})
}
