package main

import (
	"context"
	"fmt"
	"io"
	"log"
	"os"
	"time"

	lime "github.com/takenet/lime-go"
	"verif/gosim/rt"
)

func body(out *string) func() {
	return func() {
		log.SetOutput(io.Discard)
		addr := lime.InProcessAddr("smoke")
		l := lime.NewInProcessTransportListener(addr)
		ctx, cancel := context.WithTimeout(context.Background(), 10*time.Second)
		defer cancel()
		if err := l.Listen(ctx, addr); err != nil {
			panic(err)
		}
		ct, err := lime.DialInProcess(addr, 1)
		if err != nil {
			panic(err)
		}
		st, err := l.Accept(ctx)
		if err != nil {
			panic(err)
		}
		sc := lime.NewServerChannel(st, 1, lime.Node{Identity: lime.Identity{Name: "srv", Domain: "d"}, Instance: "i"}, "sid-1")
		cc := lime.NewClientChannel(ct, 1)
		done := make(chan error, 1)
		go func() {
			done <- sc.EstablishSession(ctx,
				[]lime.SessionCompression{lime.SessionCompressionNone},
				[]lime.SessionEncryption{lime.SessionEncryptionNone},
				[]lime.AuthenticationScheme{lime.AuthenticationSchemeGuest},
				func(context.Context, lime.Identity, lime.Authentication) (*lime.AuthenticationResult, error) {
					return lime.MemberAuthenticationResult(), nil
				},
				func(_ context.Context, n lime.Node, _ *lime.ServerChannel) (lime.Node, error) { return n, nil })
		}()
		ses, err := cc.EstablishSession(ctx, lime.NoneCompressionSelector, lime.NoneEncryptionSelector,
			lime.Identity{Name: "cli", Domain: "d"}, lime.GuestAuthenticator, "inst")
		if err != nil {
			*out = "client-err:" + err.Error()
			return
		}
		if e := <-done; e != nil {
			*out = "server-err:" + e.Error()
			return
		}
		msg := &lime.Message{}
		msg.SetContent(lime.TextDocument("hi"))
		go func() { _ = cc.SendMessage(ctx, msg) }()
		select {
		case m := <-sc.MsgChan():
			*out = fmt.Sprintf("%s/%v", ses.State, m.Content)
		case <-ctx.Done():
			*out = "timeout"
		}
		_ = l.Close()
		rt.Stop()
	}
}

func main() {
	var out string
	e := &rt.Explorer{Bound: 1, Body: body(&out)}
	outs := map[string]int{}
	e.OnResult = func(r *rt.Result, ch []int) bool {
		k := out + "|" + r.End.String()
		if r.Crash != "" {
			k += "|" + r.Crash[:80]
		}
		if r.End == rt.EndToolError {
			k += r.ToolErr
		}
		outs[k]++
		out = ""
		return true
	}
	t0 := time.Now()
	e.Explore(nil)
	fmt.Printf("%+v\n%v in %v\n", e.Stats, outs, time.Since(t0))
	if len(os.Args) > 1 {
		os.Exit(0)
	}
}
