// C06 - data envelopes flow only while the session is established.
// Send direction: a real client/server pair (library on both ends) runs
// handshake -> established -> teardown while one extra goroutine per role
// issues one send call, released at a stage chosen as data and then placed by
// the bounded scheduler; wire taps record what really went out.
// Receive direction: a raw peer injects a data envelope at every position of
// an otherwise valid handshake, against both roles.
package main

import (
	"context"
	"encoding/json"
	"fmt"
	"strings"
	"time"

	lime "github.com/takenet/lime-go"
	"verif/gosim/harness"
	"verif/gosim/rt"
	"verif/scen/lib"
)

type wire struct {
	dir   string // c>s | s>c
	state string // session state or ""
	id    string
	seq   int
}

type callRec struct {
	role    string
	what    string
	id      string
	gate    int
	started int // observation sequence numbers
	ended   int
	err     error
	done    bool
}

type st struct {
	kind     string
	teardown string
	wire     []wire
	calls    []*callRec
	seq      int
	estRetC  int // seq when client EstablishSession returned
	estRetS  int
	tdRet    int // seq when the terminating call returned
	srvGot   []string
	cliGot   []string
	snap     bool
	estOKC   bool
	estOKS   bool
	ccFinal  lime.SessionState
	scFinal  lime.SessionState
}

func (s *st) tick() int { s.seq++; return s.seq }

func tapFn(s *st, dir string) func(b []byte) {
	return func(b []byte) {
		for _, line := range strings.Split(strings.TrimSpace(string(b)), "\n") {
			var m map[string]interface{}
			if json.Unmarshal([]byte(line), &m) != nil {
				continue
			}
			s.wire = append(s.wire, wire{dir: dir, state: lib.Str(m, "state"), id: lib.Str(m, "id"), seq: s.tick()})
		}
	}
}

type sendAPI interface {
	SendMessage(context.Context, *lime.Message) error
	SendNotification(context.Context, *lime.Notification) error
	SendRequestCommand(context.Context, *lime.RequestCommand) error
	SendResponseCommand(context.Context, *lime.ResponseCommand) error
	ProcessCommand(context.Context, *lime.RequestCommand) (*lime.ResponseCommand, error)
}

var whats = []string{"SendMessage", "SendNotification", "SendRequestCommand", "SendResponseCommand", "ProcessCommand"}

func doCall(ctx context.Context, x *harness.X, s *st, ch sendAPI, c *callRec) {
	c.started = s.tick()
	x.Obs("%s %s starts", c.role, c.what)
	switch c.what {
	case "SendMessage":
		c.err = ch.SendMessage(ctx, lib.Msg(c.id, "d"))
	case "SendNotification":
		c.err = ch.SendNotification(ctx, lib.Not(c.id, lime.NotificationEventReceived))
	case "SendRequestCommand":
		c.err = ch.SendRequestCommand(ctx, lib.Req(c.id, "/x"))
	case "SendResponseCommand":
		c.err = ch.SendResponseCommand(ctx, lib.Resp(c.id))
	case "ProcessCommand":
		pctx, cancel := context.WithTimeout(ctx, 2*time.Second)
		_, c.err = ch.ProcessCommand(pctx, lib.Req(c.id, "/x"))
		cancel()
		if c.err != nil && strings.Contains(c.err.Error(), "process command: context") {
			c.err = nil // the request went out; nobody answers in this scenario
		}
	}
	c.ended = s.tick()
	c.done = true
	x.Obs("%s %s returns err=%v", c.role, c.what, c.err != nil)
}

func sendBody(kind string, ops []string) func(x *harness.X) {
	return func(x *harness.X) {
		lib.Reset()
		s := &st{kind: kind}
		x.Vars["st"] = s
		s.teardown = []string{"client-finish", "server-finish", "server-fail"}[rt.Choose(3)]
		whatC, whatS := ops[rt.Choose(len(ops))], ops[rt.Choose(len(ops))]
		gateC, gateS := rt.Choose(3), rt.Choose(3) // 0: from the start, 1: once established, 2: once torn down
		buf := 1
		if kind == "tcp" {
			buf = 64 << 10
		}
		ct, stp, cconn, sconn := lib.Transports(kind, buf, nil)
		if cconn != nil {
			cconn.Tap = tapFn(s, "c>s")
			sconn.Tap = tapFn(s, "s>c")
		}
		cc := lime.NewClientChannel(ct, 1)
		sc := lime.NewServerChannel(stp, 1, lib.ServerNode, "sid-1")
		ctx, cancel := context.WithTimeout(context.Background(), 60*time.Second)
		defer cancel()
		gates := []chan struct{}{make(chan struct{}), make(chan struct{}), make(chan struct{})}
		close(gates[0])
		rt.BeginExplore()
		// consumers: whatever reaches the application side is recorded
		go func() {
			for {
				select {
				case m, ok := <-sc.MsgChan():
					if !ok {
						return
					}
					s.srvGot = append(s.srvGot, m.ID)
				case m, ok := <-sc.NotChan():
					if !ok {
						return
					}
					s.srvGot = append(s.srvGot, m.ID)
				case m, ok := <-sc.ReqCmdChan():
					if !ok {
						return
					}
					s.srvGot = append(s.srvGot, m.ID)
				case m, ok := <-sc.RespCmdChan():
					if !ok {
						return
					}
					s.srvGot = append(s.srvGot, m.ID)
				}
			}
		}()
		go func() {
			for {
				select {
				case m, ok := <-cc.MsgChan():
					if !ok {
						return
					}
					s.cliGot = append(s.cliGot, m.ID)
				case m, ok := <-cc.NotChan():
					if !ok {
						return
					}
					s.cliGot = append(s.cliGot, m.ID)
				case m, ok := <-cc.ReqCmdChan():
					if !ok {
						return
					}
					s.cliGot = append(s.cliGot, m.ID)
				case m, ok := <-cc.RespCmdChan():
					if !ok {
						return
					}
					s.cliGot = append(s.cliGot, m.ID)
				}
			}
		}()
		estDone := make(chan struct{}, 2)
		go func() {
			err := lib.ServerEstablishGuest(ctx, sc)
			s.estOKS = err == nil && sc.State() == lime.SessionStateEstablished
			s.estRetS = s.tick()
			x.Obs("server establish returned ok=%v", s.estOKS)
			estDone <- struct{}{}
		}()
		go func() {
			ses, err := lib.ClientEstablishGuest(ctx, cc, "alice")
			s.estOKC = err == nil && ses.State == lime.SessionStateEstablished
			s.estRetC = s.tick()
			x.Obs("client establish returned ok=%v", s.estOKC)
			estDone <- struct{}{}
		}()
		cC := &callRec{role: "client", what: whatC, id: "c-data", gate: gateC}
		cS := &callRec{role: "server", what: whatS, id: "s-data", gate: gateS}
		s.calls = []*callRec{cC, cS}
		go func() { <-gates[gateC]; doCall(ctx, x, s, cc, cC) }()
		go func() { <-gates[gateS]; doCall(ctx, x, s, sc, cS) }()
		<-estDone
		<-estDone
		close(gates[1])
		// teardown
		switch s.teardown {
		case "client-finish":
			go func() {
				<-sc.RcvDone()
				if sc.Established() {
					fctx, c2 := context.WithTimeout(context.Background(), time.Second)
					_ = sc.FinishSession(fctx)
					c2()
				}
			}()
			_, _ = cc.FinishSession(ctx)
		case "server-finish":
			_ = sc.FinishSession(ctx)
		case "server-fail":
			_ = sc.FailSession(ctx, &lime.Reason{Code: 1, Description: "x"})
		}
		s.tdRet = s.tick()
		x.Obs("teardown %s returned", s.teardown)
		if s.teardown != "client-finish" {
			// the client learns about the end through its receiver
			<-cc.RcvDone()
		}
		close(gates[2])
		for i := 0; i < 2; i++ {
			rt.Quiesce()
			time.Sleep(6 * time.Second)
		}
		rt.Quiesce()
		rt.EndExplore()
		s.ccFinal, s.scFinal = cc.State(), sc.State()
		s.snap = true
		rt.Stop()
	}
}

func sendFinal(x *harness.X, res *rt.Result) {
	s, _ := x.Vars["st"].(*st)
	if s == nil {
		return
	}
	hist := fmt.Sprintf("[%s teardown=%s; %s]", s.kind, s.teardown, strings.Join(x.Log(), " | "))
	if res.Crash != "" {
		x.Failf("panic:"+res.CrashSite, "%s %s", strings.SplitN(res.Crash, "\n", 2)[0], hist)
		return
	}
	if !s.snap {
		return
	}
	// where is the established envelope on the wire
	estSeq := 0
	for _, w := range s.wire {
		if w.dir == "s>c" && w.state == "established" && estSeq == 0 {
			estSeq = w.seq
		}
	}
	onWire := func(id string) (int, bool) {
		for _, w := range s.wire {
			if w.id == id && w.state == "" {
				return w.seq, true
			}
		}
		return 0, false
	}
	for _, c := range s.calls {
		if !c.done {
			x.Failf("send-blocked:"+c.role+":"+c.what, "%s %s never returned %s", c.role, c.what, hist)
			continue
		}
		wseq, written := onWire(c.id)
		delivered := contains(s.srvGot, c.id) || contains(s.cliGot, c.id)
		if s.kind == "inproc" {
			written = delivered
		}
		// after the terminating call returned (server role: its own call; client role after
		// client-finish: its own call) every send must fail and emit nothing
		ownTeardown := (c.role == "server" && s.teardown != "client-finish") || (c.role == "client" && s.teardown == "client-finish")
		if ownTeardown && c.started > s.tdRet {
			if c.err == nil {
				x.Failf("send-ok-after-end:"+c.role+":"+c.what, "%s %s started after the session had ended (%s returned) and reported success %s", c.role, c.what, s.teardown, hist)
			}
			if written {
				x.Failf("data-after-end:"+c.role+":"+c.what, "%s %s started after the session had ended and still emitted its envelope %s", c.role, c.what, hist)
			}
		}
		// before establishment: a call that returned before the establishing call did on its side
		estRet := s.estRetC
		if c.role == "server" {
			estRet = s.estRetS
		}
		_ = estRet
		if s.kind == "tcp" && written && estSeq > 0 && wseq < estSeq {
			x.Failf("data-before-established:"+c.role+":"+c.what, "the %s's data envelope was written before the established session envelope %s", c.role, hist)
		}
		if s.kind == "tcp" && written && estSeq == 0 {
			x.Failf("data-without-established:"+c.role+":"+c.what, "the %s's data envelope was written although no established envelope ever was %s", c.role, hist)
		}
		if c.err == nil && s.kind == "tcp" && !written {
			x.Failf("send-ok-nothing-written:"+c.role+":"+c.what, "%s %s reported success but nothing was written %s", c.role, c.what, hist)
		}
		if c.err != nil && written && !strings.Contains(c.err.Error(), "context") {
			x.Failf("send-error-but-written:"+c.role+":"+c.what, "%s %s returned %q but its envelope was emitted %s", c.role, c.what, c.err, hist)
		}
	}
}

func contains(l []string, s string) bool {
	for _, x := range l {
		if x == s {
			return true
		}
	}
	return false
}

// ---- receive direction -------------------------------------------------------------

type rst struct {
	role     string
	pos      int
	what     string
	estErr   error
	estRet   bool
	estState lime.SessionState
	got      []string
	handler  []string
	snap     bool
}

var dataEnvs = map[string]string{
	"message":      `{"id":"inj","type":"text/plain","content":"boo"}`,
	"notification": `{"id":"inj","event":"received"}`,
	"request":      `{"id":"inj","method":"get","uri":"/x"}`,
	"response":     `{"id":"inj","method":"get","status":"success"}`,
}

func recvBody(role string) func(x *harness.X) {
	kinds := []string{"message", "notification", "request", "response"}
	return func(x *harness.X) {
		lib.Reset()
		s := &rst{role: role}
		x.Vars["rst"] = s
		s.pos = rt.Choose(3)
		s.what = kinds[rt.Choose(len(kinds))]
		inj := []byte(dataEnvs[s.what])
		ctx, cancel := context.WithTimeout(context.Background(), 30*time.Second)
		defer cancel()
		cconn, sconn := rt.Pipe(64 << 10)
		drain := func(m <-chan *lime.Message, n <-chan *lime.Notification, q <-chan *lime.RequestCommand, p <-chan *lime.ResponseCommand) {
			for i := 0; i < 4; i++ {
				select {
				case v, ok := <-m:
					if ok {
						s.got = append(s.got, v.ID)
					}
				case v, ok := <-n:
					if ok {
						s.got = append(s.got, v.ID)
					}
				case v, ok := <-q:
					if ok {
						s.got = append(s.got, v.ID)
					}
				case v, ok := <-p:
					if ok {
						s.got = append(s.got, v.ID)
					}
				default:
				}
			}
		}
		if role == "server" {
			// real Server (so that handlers could be reached) with negotiation and plain authentication
			mux := &lime.EnvelopeMux{}
			h := func(id string) { s.handler = append(s.handler, id); x.Obs("handler got %s", id) }
			mux.MessageHandlerFunc(nil, func(c context.Context, m *lime.Message, _ lime.Sender) error { h(m.ID); return nil })
			mux.NotificationHandlerFunc(nil, func(c context.Context, m *lime.Notification) error { h(m.ID); return nil })
			mux.RequestCommandHandlerFunc(nil, func(c context.Context, m *lime.RequestCommand, _ lime.Sender) error { h(m.ID); return nil })
			mux.ResponseCommandHandlerFunc(nil, func(c context.Context, m *lime.ResponseCommand, _ lime.Sender) error { h(m.ID); return nil })
			cfg := lime.NewServerConfig()
			cfg.Node = lib.ServerNode
			cfg.SchemeOpts = []lime.AuthenticationScheme{lime.AuthenticationSchemeGuest}
			cfg.EncryptOpts = []lime.SessionEncryption{lime.SessionEncryptionNone, lime.SessionEncryptionTLS}
			cfg.Backlog, cfg.ChannelBufferSize = 1, 1
			cfg.Authenticate, cfg.Register = lib.GuestOK, lib.RegisterSame
			var srvChan *lime.ServerChannel
			cfg.Established = func(id string, c *lime.ServerChannel) { srvChan = c; x.Obs("established-callback") }
			pl := lib.NewPipeListener(&lime.TCPConfig{TLSConfig: lib.TLSServerConfig()}, 64<<10, 1)
			srv := lime.NewServer(cfg, mux, lime.NewBoundListener(pl, lib.PipeAddr("p")))
			go func() { _ = srv.ListenAndServe() }()
			p := lib.NewRawPeer(pl.Dial())
			sid := ""
			step := func(b string) {
				_ = p.Send([]byte(strings.ReplaceAll(b, "SID", sid)))
				for _, m := range p.ReadQuiet(30 * time.Second) {
					if sid == "" {
						sid = lib.Str(m, "id")
					}
					x.Obs("server answered %v", m["state"])
				}
			}
			script := []string{`{"state":"new"}`, `{"state":"negotiating","id":"SID","encryption":"none","compression":"none"}`, `{"state":"authenticating","id":"SID","from":"alice@cli.test/h","scheme":"guest","authentication":{}}`}
			for i, line := range script {
				if i == s.pos {
					x.Obs("inject %s at position %d", s.what, i)
					step(string(inj))
				}
				step(line)
			}
			rt.Quiesce()
			if srvChan != nil {
				s.estState = srvChan.State()
			}
			_ = ctx
		} else {
			// real client channel against a scripted server
			tr := lime.NewTCPTransportFromConn(cconn, nil, false)
			cc := lime.NewClientChannel(tr, 1)
			go func() {
				ses, err := cc.EstablishSession(ctx, lime.NoneCompressionSelector, lime.NoneEncryptionSelector, lime.Identity{Name: "alice", Domain: "cli.test"}, lime.GuestAuthenticator, "h")
				s.estErr, s.estRet = err, true
				if ses != nil {
					s.estState = ses.State
				}
				x.Obs("client establish returned err=%v", err != nil)
			}()
			p := lib.NewRawPeer(sconn)
			p.ReadQuiet(30 * time.Second) // new
			script := []string{
				`{"state":"negotiating","id":"S1","from":"postmaster@srv.test/s1","encryptionOptions":["none"],"compressionOptions":["none"]}`,
				`{"state":"negotiating","id":"S1","from":"postmaster@srv.test/s1","encryption":"none","compression":"none"}` + "\n" + `{"state":"authenticating","id":"S1","from":"postmaster@srv.test/s1","schemeOptions":["guest"]}`,
				`{"state":"established","id":"S1","from":"postmaster@srv.test/s1","to":"alice@cli.test/h"}`,
			}
			for i, line := range script {
				if i == s.pos {
					x.Obs("inject %s at position %d", s.what, i)
					_ = p.Send(inj)
					p.ReadQuiet(30 * time.Second)
				}
				_ = p.Send([]byte(line))
				p.ReadQuiet(30 * time.Second)
			}
			rt.Quiesce()
			drain(cc.MsgChan(), cc.NotChan(), cc.ReqCmdChan(), cc.RespCmdChan())
			if !s.estRet {
				time.Sleep(40 * time.Second)
			}
		}
		s.snap = true
		rt.Stop()
	}
}

// afterTerminalBody: the real client channel is established against a scripted
// server which then ends the session (finished or failed) but keeps the
// connection open; afterwards every send operation must fail and write nothing.
func afterTerminalBody(x *harness.X) {
	lib.Reset()
	s := &rst{role: "client-after-terminal"}
	x.Vars["rst"] = s
	term := []string{"failed", "finished", "finishing"}[rt.Choose(3)]
	s.what = term + "/" + whats[rt.Choose(len(whats))]
	cconn, sconn := rt.Pipe(64 << 10)
	tr := lime.NewTCPTransportFromConn(cconn, nil, false)
	cc := lime.NewClientChannel(tr, 1)
	ctx, cancel := context.WithTimeout(context.Background(), 30*time.Second)
	defer cancel()
	p := lib.NewRawPeer(sconn)
	go func() {
		p2 := p
		p2.Block = true
		if _, ok := p2.ReadOne(30 * time.Second); !ok {
			return
		}
		_ = p2.Send([]byte(`{"state":"established","id":"S1","from":"postmaster@srv.test/s1","to":"alice@cli.test/h"}`))
	}()
	ses, err := cc.EstablishSession(ctx, lime.NoneCompressionSelector, lime.NoneEncryptionSelector, lime.Identity{Name: "alice", Domain: "cli.test"}, lime.GuestAuthenticator, "h")
	if err != nil || ses.State != lime.SessionStateEstablished {
		x.Failf("setup", "could not establish: %v", err)
		rt.Stop()
	}
	p.Block = false
	reason := ""
	if term == "failed" {
		reason = `,"reason":{"code":1,"description":"bye"}`
	}
	_ = p.Send([]byte(`{"state":"` + term + `","id":"S1","from":"postmaster@srv.test/s1"` + reason + `}`))
	rt.Quiesce()
	<-cc.RcvDone()
	x.Obs("client saw the session envelope, state=%v", cc.State())
	written := false
	sconn.Tap = nil
	cconn.Tap = func(b []byte) { written = true }
	st2 := &st{}
	c := &callRec{role: "client", what: strings.SplitN(s.what, "/", 2)[1], id: "late"}
	doCall(ctx, x, st2, cc, c)
	rt.Quiesce()
	s.estErr = c.err
	s.estRet = written
	s.snap = true
	rt.Stop()
}

func afterTerminalFinal(x *harness.X, res *rt.Result) {
	s, _ := x.Vars["rst"].(*rst)
	if s == nil || !s.snap {
		return
	}
	hist := fmt.Sprintf("[%s; %s]", s.what, strings.Join(x.Log(), " | "))
	if res.Crash != "" {
		x.Failf("panic:"+res.CrashSite, "%s %s", strings.SplitN(res.Crash, "\n", 2)[0], hist)
		return
	}
	if s.estErr == nil {
		x.Failf("send-ok-after-peer-end:"+s.what, "the peer ended the session (%s) and the send still reported success %s", s.what, hist)
	}
	if s.estRet {
		x.Failf("data-after-peer-end:"+s.what, "the peer ended the session (%s) and the send still wrote to the connection %s", s.what, hist)
	}
}

func recvFinal(x *harness.X, res *rt.Result) {
	s, _ := x.Vars["rst"].(*rst)
	if s == nil {
		return
	}
	tag := fmt.Sprintf("%s:pos%d:%s", s.role, s.pos, s.what)
	hist := fmt.Sprintf("[%s; %s]", tag, strings.Join(x.Log(), " | "))
	if res.Crash != "" {
		x.Failf("panic:"+res.CrashSite, "%s %s", strings.SplitN(res.Crash, "\n", 2)[0], hist)
		return
	}
	if !s.snap {
		return
	}
	if contains(s.handler, "inj") || contains(s.got, "inj") {
		x.Failf("early-data-delivered:"+tag, "a data envelope that arrived before establishment reached the application %s", hist)
	}
	if s.role == "client" {
		if s.estRet && s.estErr == nil && s.estState == lime.SessionStateEstablished {
			x.Failf("handshake-not-aborted:"+tag, "a data envelope arrived during the handshake and the client still reported established %s", hist)
		}
		if !s.estRet {
			x.Failf("handshake-stuck:"+tag, "client EstablishSession did not return %s", hist)
		}
	} else if s.estState == lime.SessionStateEstablished {
		x.Failf("handshake-not-aborted:"+tag, "a data envelope arrived during the handshake and the server still established the session %s", hist)
	}
}

func main() {
	opt := rt.Options{NoExplore: true, Horizon: 300 * time.Second, MaxSteps: 100000, BoundAll: true, NoTimerDeviation: true}
	ropt := opt
	ropt.NoExplore = false
	harness.Main(harness.Check{
		Property: "C06",
		Level:    "model_checking",
		Rule:     "send direction: teardown {client finish, server finish, server fail} x one send call per role from {SendMessage, SendNotification, SendRequestCommand, SendResponseCommand, ProcessCommand} x release stage per role {from the start, once established, once torn down} as data choices (675 combinations) over the in-process and TCP transports, all schedules within the deviation bound (delay bounding) from before the handshake; wire taps decode what was really written. After a peer-sent finished/failed/finishing session envelope on a connection the peer keeps open, each of the five send operations must fail and write nothing. Receive direction: each data envelope kind injected at each of 3 handshake positions against the real Server and the real ClientChannel; distinct outcome = distinct observation log",
		Assume:   []string{"in-process transport has no wire: 'written' is approximated there by 'delivered to the peer application'", "calls that overlap a transition may linearise on either side (the statement does not say otherwise)"},
		Scenarios: []harness.Scenario{
			{Name: "send/tcp", Opt: opt, Quick: 1, Thorough: 1, Prune: false, Body: sendBody("tcp", whats), Final: sendFinal},
			{Name: "send/inproc", Opt: opt, Quick: 1, Thorough: 1, Prune: false, Body: sendBody("inproc", whats), Final: sendFinal},
			{Name: "send/tcp/2ops", Opt: opt, Quick: -1, Thorough: 2, Prune: false, Body: sendBody("tcp", []string{"SendMessage", "ProcessCommand"}), Final: sendFinal},
			{Name: "receive/server", Opt: ropt, Quick: 0, Thorough: 1, Prune: false, Body: recvBody("server"), Final: recvFinal},
			{Name: "receive/client", Opt: ropt, Quick: 0, Thorough: 1, Prune: false, Body: recvBody("client"), Final: recvFinal},
			{Name: "send/client-after-peer-ended-session", Opt: ropt, Quick: 0, Thorough: 1, Prune: false, Body: afterTerminalBody, Final: afterTerminalFinal},
		},
	})
}
