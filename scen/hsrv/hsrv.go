// Package hsrv is the server-handshake script tree shared by C03, C07, C09,
// C10 and C14: a scripted client speaks raw JSON/bytes (and real TLS) over a
// virtual pipe to the real server code; every client script over a finite
// alphabet up to a depth, every server configuration of a small lattice and
// every outcome of the Authenticate/Register callbacks is enumerated through
// rt.Choose, and every step is compared with an executable reference model of
// the session protocol written from the protocol text.
package hsrv

import (
	"context"
	"encoding/base64"
	"encoding/json"
	"errors"
	"fmt"
	"strings"
	"time"

	"github.com/gorilla/websocket"
	lime "github.com/takenet/lime-go"
	"verif/gosim/harness"
	"verif/gosim/rt"
	"verif/scen/lib"
)

// ---- configurations ------------------------------------------------------------

type Config struct {
	Name    string
	Schemes []lime.AuthenticationScheme
	Enc     []lime.SessionEncryption
	Comp    []lime.SessionCompression
	TLS     bool // the listener has a TLS configuration
	// FromBuilder: the server's option lists come out of a ServerBuilder that was given
	// Enc/Comp through EncryptionOptions/CompressionOptions (the documented way to demand TLS)
	FromBuilder bool
	// RealAuth: Authenticate is the one the ServerBuilder assembles (buildAuthenticate over
	// the registered plain/key/external authenticators, which accept exactly one credential each)
	RealAuth bool
	// CertByCallback: the listener's TLS configuration supplies its certificate only through
	// GetConfigForClient (no Certificates, no GetCertificate) - still a TLS-capable listener
	CertByCallback bool
}

const (
	none = lime.SessionEncryptionNone
	tlsE = lime.SessionEncryptionTLS
	cno  = lime.SessionCompressionNone
	gz   = lime.SessionCompressionGzip
)

var Configs = []Config{
	{"guest/none", []lime.AuthenticationScheme{lime.AuthenticationSchemeGuest}, []lime.SessionEncryption{none}, []lime.SessionCompression{cno}, false, false, false, false},
	{"plain/none+tls", []lime.AuthenticationScheme{lime.AuthenticationSchemePlain}, []lime.SessionEncryption{none, tlsE}, []lime.SessionCompression{cno}, true, false, false, false},
	{"plain+key/tls-only", []lime.AuthenticationScheme{lime.AuthenticationSchemePlain, lime.AuthenticationSchemeKey}, []lime.SessionEncryption{tlsE}, []lime.SessionCompression{cno}, true, false, false, false},
	{"guest+plain+external/tls+none/gzip", []lime.AuthenticationScheme{lime.AuthenticationSchemeGuest, lime.AuthenticationSchemePlain, lime.AuthenticationSchemeExternal}, []lime.SessionEncryption{tlsE, none}, []lime.SessionCompression{cno, gz}, true, false, false, false},
	{"transport/none+tls/no-tlsconfig", []lime.AuthenticationScheme{lime.AuthenticationSchemeTransport}, []lime.SessionEncryption{none, tlsE}, []lime.SessionCompression{cno}, false, false, false, false},
	{Name: "builder:transport+guest/tls-only", Schemes: []lime.AuthenticationScheme{lime.AuthenticationSchemeTransport, lime.AuthenticationSchemeGuest}, Enc: []lime.SessionEncryption{tlsE}, Comp: []lime.SessionCompression{cno}, TLS: true, FromBuilder: true},
	{Name: "builder-auth:transport+guest+plain+key+external/none", Schemes: []lime.AuthenticationScheme{lime.AuthenticationSchemeTransport, lime.AuthenticationSchemeGuest, lime.AuthenticationSchemePlain, lime.AuthenticationSchemeKey, lime.AuthenticationSchemeExternal}, Enc: []lime.SessionEncryption{none}, Comp: []lime.SessionCompression{cno}, FromBuilder: true, RealAuth: true},
	{"guest/none/gzip-only", []lime.AuthenticationScheme{lime.AuthenticationSchemeGuest}, []lime.SessionEncryption{none}, []lime.SessionCompression{gz}, false, false, false, false},
	{Name: "plain/tls-only/cert-by-callback", Schemes: []lime.AuthenticationScheme{lime.AuthenticationSchemePlain}, Enc: []lime.SessionEncryption{tlsE}, Comp: []lime.SessionCompression{cno}, TLS: true, CertByCallback: true},
	{"plain/tls-only/gzip-only", []lime.AuthenticationScheme{lime.AuthenticationSchemePlain}, []lime.SessionEncryption{tlsE}, []lime.SessionCompression{gz}, true, false, false, false},
}

// what a TCP transport reports as supported
var supEnc = []lime.SessionEncryption{none, tlsE}
var supComp = []lime.SessionCompression{cno}

func offerEnc(c Config) []string {
	var o []string
	for _, e := range c.Enc {
		for _, s := range supEnc {
			if e == s {
				o = append(o, string(e))
			}
		}
	}
	return o
}

func offerComp(c Config) []string {
	var o []string
	for _, e := range c.Comp {
		for _, s := range supComp {
			if e == s {
				o = append(o, string(e))
			}
		}
	}
	return o
}

func has(l []string, s string) bool {
	for _, x := range l {
		if x == s {
			return true
		}
	}
	return false
}

// ---- client alphabet -------------------------------------------------------------

type input struct {
	name string
	kind string // session | data | garbage | close | halfclose
	// session fields
	state   string
	id      string // "" absent, "echo", "wrong"
	enc     string
	comp    string
	scheme  string
	auth    string // "" none, "obj" scheme-appropriate object
	rawJSON string // for data/garbage
	vanish  bool   // close right after sending, without reading the answer
	from    string // sender node of an authenticating envelope (default clientNode)
	pp      string // "per procurationem" node of an authenticating envelope (default absent)
}

func (in input) sender() string {
	if in.from == "-" {
		return "" // the envelope carries no from at all
	}
	if in.from != "" {
		return in.from
	}
	return clientNode
}

func alphabet() []input {
	var a []input
	a = append(a, input{name: "new", kind: "session", state: "new"})
	a = append(a, input{name: "new+id", kind: "session", state: "new", id: "wrong"})
	a = append(a, input{name: "new+uuid-id", kind: "session", state: "new", id: "uuid"})
	a = append(a, input{name: "new(enc=none,comp=none)", kind: "session", state: "new", enc: "none", comp: "none"})
	// the option choice sent in an envelope whose state is still (or again) "new"
	a = append(a, input{name: "new+echo-id(enc=none,comp=none)", kind: "session", state: "new", id: "echo", enc: "none", comp: "none"})
	a = append(a, input{name: "new+echo-id(enc=tls,comp=none)", kind: "session", state: "new", id: "echo", enc: "tls", comp: "none"})
	for _, p := range [][2]string{{"none", "none"}, {"tls", "none"}, {"none", "gzip"}, {"zzz", "none"}} {
		a = append(a, input{name: "neg(" + p[0] + "," + p[1] + ")", kind: "session", state: "negotiating", id: "echo", enc: p[0], comp: p[1]})
	}
	a = append(a, input{name: "neg(wrongid)", kind: "session", state: "negotiating", id: "wrong", enc: "none", comp: "none"})
	a = append(a, input{name: "neg(noid)", kind: "session", state: "negotiating", enc: "none", comp: "none"})
	a = append(a, input{name: "neg(nooptions)", kind: "session", state: "negotiating", id: "echo"})
	for _, s := range []string{"guest", "plain", "key", "transport", "external"} {
		a = append(a, input{name: "auth(" + s + ")", kind: "session", state: "authenticating", id: "echo", scheme: s, auth: "obj"})
	}
	a = append(a, input{name: "auth(guest;from=mallory)", kind: "session", state: "authenticating", id: "echo", scheme: "guest", auth: "obj", from: "mallory@cli.test/home"})
	a = append(a, input{name: "auth(plain;from=mallory)", kind: "session", state: "authenticating", id: "echo", scheme: "plain", auth: "obj", from: "mallory@cli.test/home"})
	a = append(a, input{name: "auth(plain;pp=mallory)", kind: "session", state: "authenticating", id: "echo", scheme: "plain", auth: "obj", pp: "mallory@cli.test/home"})
	a = append(a, input{name: "auth(guest;pp=mallory)", kind: "session", state: "authenticating", id: "echo", scheme: "guest", auth: "obj", pp: "mallory@cli.test/home"})
	a = append(a, input{name: "auth(plain,wrong-password)", kind: "session", state: "authenticating", id: "echo", scheme: "plain", auth: "bad"})
	a = append(a, input{name: "auth(plain,bad-base64)", kind: "session", state: "authenticating", id: "echo", scheme: "plain", auth: "b64"})
	a = append(a, input{name: "auth(key,bad-base64)", kind: "session", state: "authenticating", id: "echo", scheme: "key", auth: "b64"})
	a = append(a, input{name: "auth(key,wrong-key)", kind: "session", state: "authenticating", id: "echo", scheme: "key", auth: "bad"})
	a = append(a, input{name: "auth(external,wrong-issuer)", kind: "session", state: "authenticating", id: "echo", scheme: "external", auth: "bad"})
	a = append(a, input{name: "auth(zzz,noauth)", kind: "session", state: "authenticating", id: "echo", scheme: "zzz"})
	a = append(a, input{name: "auth(noscheme)", kind: "session", state: "authenticating", id: "echo"})
	a = append(a, input{name: "auth(guest,noauthobj)", kind: "session", state: "authenticating", id: "echo", scheme: "guest"})
	a = append(a, input{name: "auth(wrongid)", kind: "session", state: "authenticating", id: "wrong", scheme: "guest", auth: "obj"})
	a = append(a, input{name: "auth(noid)", kind: "session", state: "authenticating", scheme: "guest", auth: "obj"})
	for _, s := range []string{"established", "finishing", "finished", "failed"} {
		a = append(a, input{name: s, kind: "session", state: s, id: "echo"})
	}
	// acceptable credentials in a session envelope whose state is past authenticating
	a = append(a, input{name: "established+guest-credentials", kind: "session", state: "established", id: "echo", scheme: "guest", auth: "obj"})
	a = append(a, input{name: "finishing+plain-credentials", kind: "session", state: "finishing", id: "echo", scheme: "plain", auth: "obj"})
	// credentials without any sender
	a = append(a, input{name: "auth(guest;nofrom)", kind: "session", state: "authenticating", id: "echo", scheme: "guest", auth: "obj", from: "-"})
	a = append(a, input{name: "auth(plain;nofrom)", kind: "session", state: "authenticating", id: "echo", scheme: "plain", auth: "obj", from: "-"})
	a = append(a, input{name: "message", kind: "data", rawJSON: `{"id":"m1","type":"text/plain","content":"hi"}`})
	a = append(a, input{name: "notification", kind: "data", rawJSON: `{"id":"m1","event":"received"}`})
	a = append(a, input{name: "request", kind: "data", rawJSON: `{"id":"c1","method":"get","uri":"/ping"}`})
	a = append(a, input{name: "response", kind: "data", rawJSON: `{"id":"c1","method":"get","status":"success"}`})
	a = append(a, input{name: "garbage", kind: "garbage", rawJSON: `}{`})
	a = append(a, input{name: "non-envelope", kind: "garbage", rawJSON: `{"foo":1}`})
	a = append(a, input{name: "bad-state", kind: "garbage", rawJSON: `{"state":"bogus"}`})
	a = append(a, input{name: "auth-without-scheme", kind: "garbage", rawJSON: `{"state":"authenticating","id":"ECHO","authentication":{"password":"eA=="}}`})
	a = append(a, input{name: "auth(guest)+vanish", kind: "session", state: "authenticating", id: "echo", scheme: "guest", auth: "obj", vanish: true})
	a = append(a, input{name: "close", kind: "close"})
	a = append(a, input{name: "halfclose", kind: "halfclose"})
	return a
}

const clientNode = "alice@cli.test/home"

func authObjKind(scheme, kind string) interface{} {
	switch kind {
	case "bad":
		switch scheme {
		case "plain":
			return map[string]string{"password": "d3Jvbmc="} // "wrong"
		case "key":
			return map[string]string{"key": "d3Jvbmc="}
		case "external":
			return map[string]string{"token": "tok", "issuer": "evil"}
		}
	case "b64":
		if scheme == "key" {
			return map[string]string{"key": "!!!not-base64!!!"}
		}
		return map[string]string{"password": "!!!not-base64!!!"}
	}
	return authObj(scheme)
}

func authObj(scheme string) interface{} {
	switch scheme {
	case "plain":
		return map[string]string{"password": "c2VjcmV0"}
	case "key":
		return map[string]string{"key": "a2V5"}
	case "external":
		return map[string]string{"token": "tok", "issuer": "iss"}
	}
	return map[string]string{}
}

func (in input) bytes(sid string) []byte {
	if in.kind != "session" {
		return []byte(strings.ReplaceAll(in.rawJSON, "ECHO", sid))
	}
	m := map[string]interface{}{"state": in.state}
	switch in.id {
	case "echo":
		m["id"] = sid
	case "wrong":
		m["id"] = "not-" + sid
	case "uuid":
		m["id"] = "6d8ee4a3-5c4f-4f0e-9d52-3c6f1f3e9b11"
	}
	if in.pp != "" {
		m["pp"] = in.pp
	}
	if in.enc != "" {
		m["encryption"] = in.enc
	}
	if in.comp != "" {
		m["compression"] = in.comp
	}
	if in.scheme != "" {
		m["scheme"] = in.scheme
	}
	if in.auth != "" {
		m["authentication"] = authObjKind(in.scheme, in.auth)
	}
	if (in.state == "authenticating" || in.scheme != "") && in.sender() != "" {
		m["from"] = in.sender()
	}
	b, _ := json.Marshal(m)
	return b
}

// ---- observations ------------------------------------------------------------------

type authCall struct {
	identity      string
	scheme        string
	canon         string
	outcome       int
	encAt         string // server transport encryption when the callback ran
	afterFin      bool
	step          int
	real          bool   // produced by the ServerBuilder's own Authenticate
	innerMismatch string // (real only) the registered authenticators were consulted about something else than the presented credentials
	shouldAccept  bool   // (real only) the presented credential is the one the registered authenticator accepts
}

type regCall struct {
	candidate string
	outcome   int
	returned  string
}

type stepObs struct {
	in        input
	sent      []byte
	sendErr   bool
	got       []map[string]interface{}
	gotTLS    []bool // per emission: did it arrive under TLS
	srvState  lime.SessionState
	clientTLS bool // client's side is under TLS when sending
}

type run struct {
	cfg         Config
	variant     string // "server" | "channel"
	steps       []stepObs
	auths       []authCall
	regs        []regCall
	estCb       int
	finCb       int
	estCbID     string
	eof         bool
	extraAfter  []map[string]interface{}
	srvChan     *lime.ServerChannel
	srvTr       lime.Transport
	estErr      error
	estRet      bool
	srvTap      []byte // first bytes of each chunk the server wrote (classification)
	srvChunks   [][]byte
	cliChunks   [][]byte
	sid         string
	failedSeen  bool
	depth       int
	srvWroteEst bool // the server's write of an established envelope was accepted by its connection (cleartext only)
	vanished    bool
	srvConn     *rt.Conn
}

// ---- in-process scripted peer -----------------------------------------------------------

// inprocPeer drives the client end of an in-process transport with typed
// envelopes built from the same input alphabet (no raw bytes there).
type inprocPeer struct {
	t   lime.Transport
	eof bool
}

func typedEnvelope(in input, sid string) interface{} {
	if in.kind == "data" {
		switch in.name {
		case "message":
			return lib.Msg("m1", "hi")
		case "notification":
			return lib.Not("m1", lime.NotificationEventReceived)
		case "request":
			return lib.Req("c1", "/ping")
		}
		return lib.Resp("c1")
	}
	ses := &lime.Session{State: lime.SessionState(in.state)}
	switch in.id {
	case "echo":
		ses.ID = sid
	case "wrong":
		ses.ID = "not-" + sid
	case "uuid":
		ses.ID = "6d8ee4a3-5c4f-4f0e-9d52-3c6f1f3e9b11"
	}
	if in.pp != "" {
		ses.PP = lime.ParseNode(in.pp)
	}
	ses.Encryption = lime.SessionEncryption(in.enc)
	ses.Compression = lime.SessionCompression(in.comp)
	ses.Scheme = lime.AuthenticationScheme(in.scheme)
	if in.auth != "" {
		ses.Authentication = authObjTyped(in)
	}
	if (in.state == "authenticating" || in.scheme != "") && in.sender() != "" {
		ses.From = lime.ParseNode(in.sender())
	}
	return ses
}

func (p *inprocPeer) send(in input, sid string) bool {
	ctx, cancel := context.WithTimeout(context.Background(), 30*time.Second)
	defer cancel()
	var err error
	switch e := typedEnvelope(in, sid).(type) {
	case *lime.Session:
		err = p.t.Send(ctx, e)
	case *lime.Message:
		err = p.t.Send(ctx, e)
	case *lime.Notification:
		err = p.t.Send(ctx, e)
	case *lime.RequestCommand:
		err = p.t.Send(ctx, e)
	case *lime.ResponseCommand:
		err = p.t.Send(ctx, e)
	}
	return err == nil
}

// readOne returns the next envelope the server sent, or false once the rest of
// the system is idle (the 1ms timer only fires when nothing can run) or the
// transport is closed.
func (p *inprocPeer) readOne() (map[string]interface{}, bool) {
	if p.eof {
		return nil, false
	}
	ctx, cancel := context.WithTimeout(context.Background(), time.Millisecond)
	defer cancel()
	env, err := p.t.Receive(ctx)
	if err != nil {
		if ctx.Err() == nil {
			p.eof = true
		}
		return nil, false
	}
	b, _ := json.Marshal(env)
	var m map[string]interface{}
	_ = json.Unmarshal(b, &m)
	return m, true
}

func (p *inprocPeer) waitEOF(wait time.Duration) (bool, []map[string]interface{}) {
	var extra []map[string]interface{}
	for spent := time.Duration(0); ; spent += 5 * time.Second {
		for {
			m, ok := p.readOne()
			if !ok {
				break
			}
			extra = append(extra, m)
		}
		if p.eof || spent >= wait {
			break
		}
		time.Sleep(5 * time.Second)
	}
	return p.eof, extra
}

// ---- the scenario body ----------------------------------------------------------------

func body(variant string, cfgs []Config, depth int, allowTLSRefusal bool) func(x *harness.X) {
	alpha := alphabet()
	return func(x *harness.X) {
		lib.Reset()
		cfg := cfgs[rt.Choose(len(cfgs))]
		r := &run{cfg: cfg, variant: variant, depth: depth}
		x.Vars["run"] = r
		tcpCfg := &lime.TCPConfig{}
		if cfg.TLS {
			tcpCfg.TLSConfig = lib.TLSServerConfig()
			if cfg.CertByCallback {
				tcpCfg.TLSConfig = lib.TLSServerConfigByCallback()
			}
		}
		curStep := func() int { return len(r.steps) }
		var authenticate func(ctx context.Context, id lime.Identity, a lime.Authentication) (*lime.AuthenticationResult, error)
		authenticate = func(ctx context.Context, id lime.Identity, a lime.Authentication) (*lime.AuthenticationResult, error) {
			c := authCall{identity: id.String(), canon: lib.Canon(a), step: curStep(), afterFin: r.failedSeen}
			if a != nil {
				c.scheme = string(a.GetAuthenticationScheme())
			}
			if r.srvTr != nil {
				c.encAt = string(r.srvTr.Encryption())
			}
			n := 5
			if len(r.auths) >= 2 {
				n = 2
			}
			c.outcome = rt.Choose(n)
			r.auths = append(r.auths, c)
			x.Obs("authenticate %s %s -> %d", c.identity, c.scheme, c.outcome)
			switch c.outcome {
			case 0:
				return lime.MemberAuthenticationResult(), nil
			case 1:
				return lime.UnknownAuthenticationResult(), nil
			case 2:
				return &lime.AuthenticationResult{Role: lime.DomainRoleUnknown, RoundTrip: &lime.PlainAuthentication{Password: "cnQ="}}, nil
			case 3:
				return nil, errors.New("authenticate callback error")
			}
			return &lime.AuthenticationResult{Role: ""}, nil
		}
		if cfg.RealAuth {
			// the builder's own dispatch over authenticators that accept exactly one credential
			var inner []string // what the registered authenticators were asked about during one Authenticate call
			b := lime.NewServerBuilder().
				EnableGuestAuthentication().
				EnablePlainAuthentication(func(ctx context.Context, id lime.Identity, pw string) (*lime.AuthenticationResult, error) {
					inner = append(inner, "plain:"+id.String()+":"+pw)
					if id.Name == "alice" && pw == "secret" {
						return lime.MemberAuthenticationResult(), nil
					}
					return lime.UnknownAuthenticationResult(), nil
				}).
				EnableKeyAuthentication(func(ctx context.Context, id lime.Identity, key string) (*lime.AuthenticationResult, error) {
					inner = append(inner, "key:"+id.String()+":"+key)
					if id.Name == "alice" && key == "key" {
						return lime.MemberAuthenticationResult(), nil
					}
					return lime.UnknownAuthenticationResult(), nil
				}).
				EnableExternalAuthentication(func(ctx context.Context, id lime.Identity, token, issuer string) (*lime.AuthenticationResult, error) {
					inner = append(inner, "external:"+id.String()+":"+token+"|"+issuer)
					if id.Name == "alice" && token == "tok" && issuer == "iss" {
						return lime.MemberAuthenticationResult(), nil
					}
					return lime.UnknownAuthenticationResult(), nil
				})
			realAuth := b.ConfigForVerif().Authenticate
			authenticate = func(ctx context.Context, id lime.Identity, a lime.Authentication) (*lime.AuthenticationResult, error) {
				c := authCall{identity: id.String(), canon: lib.Canon(a), step: curStep(), afterFin: r.failedSeen}
				if a != nil {
					c.scheme = string(a.GetAuthenticationScheme())
				}
				if r.srvTr != nil {
					c.encAt = string(r.srvTr.Encryption())
				}
				inner = nil
				res, err := realAuth(ctx, id, a)
				// the registered authenticator may only be consulted about what the peer presented
				var wantInner []string
				switch v := a.(type) {
				case *lime.PlainAuthentication:
					if d, e := base64.StdEncoding.DecodeString(v.Password); e == nil {
						wantInner = []string{"plain:" + id.String() + ":" + string(d)}
					}
				case *lime.KeyAuthentication:
					if d, e := base64.StdEncoding.DecodeString(v.Key); e == nil {
						wantInner = []string{"key:" + id.String() + ":" + string(d)}
					}
				case *lime.ExternalAuthentication:
					wantInner = []string{"external:" + id.String() + ":" + v.Token + "|" + v.Issuer}
				}
				if strings.Join(inner, ",") != strings.Join(wantInner, ",") {
					c.innerMismatch = fmt.Sprintf("authenticators consulted about %q, the peer presented %q", inner, wantInner)
				}
				switch {
				case err != nil:
					c.outcome = 3
				case res != nil && res.Role != "" && res.Role != lime.DomainRoleUnknown:
					c.outcome = 0
				default:
					c.outcome = 1
				}
				// what the registered authenticators would accept, decided independently
				c.shouldAccept = id.Name == "alice" && a != nil && (c.canon == `{"password":"c2VjcmV0"}` && c.scheme == "plain" || c.canon == `{"key":"a2V5"}` && c.scheme == "key" || c.canon == `{"token":"tok","issuer":"iss"}` && c.scheme == "external")
				c.real = true
				r.auths = append(r.auths, c)
				x.Obs("authenticate(real) %s %s -> %d", c.identity, c.scheme, c.outcome)
				return res, err
			}
		}
		register := func(ctx context.Context, cand lime.Node, c *lime.ServerChannel) (lime.Node, error) {
			rc := regCall{candidate: cand.String(), outcome: rt.Choose(4)}
			r.srvChan = c
			var n lime.Node
			var err error
			switch rc.outcome {
			case 0:
				n = lime.Node{Identity: cand.Identity, Instance: "registered"}
			case 1:
				n = lime.Node{Identity: lime.Identity{Name: "other", Domain: "srv.test"}, Instance: "x"}
			case 2:
				err = errors.New("register callback error")
			case 3:
				// an address without a domain: still the address to announce, unaltered
				n = lime.Node{Identity: lime.Identity{Name: "nodomain"}, Instance: "x"}
			}
			rc.returned = n.String()
			r.regs = append(r.regs, rc)
			x.Obs("register %s -> %d", rc.candidate, rc.outcome)
			return n, err
		}

		var conn *rt.Conn
		var srv *lime.Server
		var ip *inprocPeer
		var wsPeer *lib.RawPeer
		switch variant {
		case "server", "server-ws":
			if variant == "server-ws" {
				// the WebSocket transport supports no in-band encryption: for the model this
				// is a connection without TLS capability
				cfg.TLS = false
				r.cfg = cfg
			}
			pl := lib.NewPipeListener(tcpCfg, 64<<10, 1)
			sc := lime.NewServerConfig()
			sc.Node = lib.ServerNode
			sc.SchemeOpts, sc.EncryptOpts, sc.CompOpts = cfg.Schemes, cfg.Enc, cfg.Comp
			if cfg.FromBuilder {
				b := lime.NewServerBuilder().EncryptionOptions(cfg.Enc...).CompressionOptions(cfg.Comp...).EnableGuestAuthentication()
				bc := b.ConfigForVerif()
				sc.SchemeOpts, sc.EncryptOpts, sc.CompOpts = bc.SchemeOpts, bc.EncryptOpts, bc.CompOpts
			}
			sc.Backlog, sc.ChannelBufferSize = 1, 1
			sc.Authenticate, sc.Register = authenticate, register
			sc.Established = func(id string, c *lime.ServerChannel) {
				r.estCb++
				r.estCbID = id
				r.srvChan = c
				x.Obs("established-callback")
			}
			sc.Finished = func(id string) { r.finCb++; x.Obs("finished-callback") }
			srv = lime.NewServer(sc, &lime.EnvelopeMux{}, lime.NewBoundListener(pl, lib.PipeAddr("p")))
			go func() { _ = srv.ListenAndServe() }()
			var cws *websocket.Conn
			if variant == "server-ws" {
				cws, conn = pl.DialWSRaw()
				wsPeer = lib.NewRawPeerWS(cws, conn)
			} else {
				conn = pl.Dial()
			}
			r.srvTr = pl.Transports[0]
			r.srvConn = pl.Servers[0]
			pl.Servers[0].Tap = func(b []byte) {
				r.srvChunks = append(r.srvChunks, append([]byte{}, b[:min(len(b), 8)]...))
				if strings.Contains(string(b), `"state":"established"`) {
					r.srvWroteEst = true
				}
			}
		case "server-inproc":
			addr := lime.InProcessAddr("hsrv")
			sc := lime.NewServerConfig()
			sc.Node = lib.ServerNode
			sc.SchemeOpts, sc.EncryptOpts, sc.CompOpts = cfg.Schemes, cfg.Enc, cfg.Comp
			sc.Backlog, sc.ChannelBufferSize = 1, 1
			sc.Authenticate, sc.Register = authenticate, register
			sc.Established = func(id string, c *lime.ServerChannel) {
				r.estCb++
				r.estCbID = id
				r.srvChan = c
				x.Obs("established-callback")
			}
			sc.Finished = func(id string) { r.finCb++; x.Obs("finished-callback") }
			srv = lime.NewServer(sc, &lime.EnvelopeMux{}, lime.NewBoundListener(lime.NewInProcessTransportListener(addr), addr))
			go func() { _ = srv.ListenAndServe() }()
			ip = &inprocPeer{t: lib.DialInProcRetry(addr, 1)}
		case "channel":
			c, s := rt.Pipe(64 << 10)
			c.Name, s.Name = "client", "server"
			conn = c
			st := lime.NewTCPTransportFromConn(s, tcpCfg, true)
			r.srvTr = st
			s.Tap = func(b []byte) { r.srvChunks = append(r.srvChunks, append([]byte{}, b[:min(len(b), 8)]...)) }
			ch := lime.NewServerChannel(st, 1, lib.ServerNode, "sid-fixed")
			r.srvChan = ch
			// no deadline: a harness timer must not be what ends the handshake
			ctx, cancel := context.WithCancel(context.Background())
			go func() {
				defer cancel()
				r.estErr = ch.EstablishSession(ctx, cfg.Comp, cfg.Enc, cfg.Schemes, authenticate, register)
				r.estRet = true
				x.Obs("establish-returned err=%v", r.estErr != nil)
			}()
		}
		var peer *lib.RawPeer
		if wsPeer != nil {
			peer = wsPeer
		} else if ip == nil {
			peer = lib.NewRawPeer(conn)
		}
		model := newModel(cfg)

		tlsBroken := false
		for step := 0; step < depth; step++ {
			in := alpha[rt.Choose(len(alpha))]
			if ip != nil {
				// no raw bytes on the in-process transport; instead every session input
				// may be followed by an immediate hang-up
				for in.kind == "garbage" || in.kind == "halfclose" || in.vanish {
					in = alpha[0]
				}
				if in.kind == "session" && rt.Choose(2) == 1 {
					in.vanish = true
					in.name += "+vanish"
				}
			}
			so := stepObs{in: in, clientTLS: peer != nil && peer.TLS()}
			switch {
			case ip != nil && in.kind == "close":
				_ = ip.t.Close()
			case ip != nil:
				so.sendErr = !ip.send(in, r.sid)
				if in.vanish {
					_ = ip.t.Close()
				}
			case in.kind == "close":
				_ = peer.Conn.Close()
			case in.kind == "halfclose":
				_ = conn.CloseWrite()
			default:
				so.sent = in.bytes(r.sid)
				so.sendErr = peer.Send(so.sent) != nil
				if in.vanish {
					_ = peer.Conn.Close()
				}
			}
			x.Obs("step %d send %s", step, in.name)
			if in.kind != "close" && !in.vanish {
				for {
					var m map[string]interface{}
					var ok bool
					if ip != nil {
						m, ok = ip.readOne()
					} else {
						m, ok = peer.ReadOne(30 * time.Second)
					}
					if !ok {
						break
					}
					so.got = append(so.got, m)
					so.gotTLS = append(so.gotTLS, peer != nil && peer.TLS())
					if r.sid == "" {
						r.sid = lib.Str(m, "id")
					}
					if lib.Str(m, "state") == "failed" || lib.Str(m, "state") == "finished" {
						r.failedSeen = true
					}
					x.Obs("  got state=%v", m["state"])
					// a confirmed TLS negotiation: the client upgrades (or, as a
					// hostile variant, keeps talking cleartext)
					if lib.Str(m, "state") == "negotiating" && m["encryptionOptions"] == nil && lib.Str(m, "encryption") == "tls" && peer != nil && !peer.TLS() && !peer.WS {
						refuse := allowTLSRefusal && rt.Choose(2) == 1
						if !refuse {
							if err := peer.StartTLSClient(); err != nil {
								// (only under a timer deviation) the bytes left on the
								// wire are TLS fragments: the client gives up and vanishes
								x.Obs("  client tls handshake failed: client closes")
								_ = conn.Close()
								tlsBroken = true
								break
							} else {
								x.Obs("  client upgraded to tls")
							}
						} else {
							x.Obs("  client refuses to upgrade")
						}
					}
				}
			}
			if r.srvChan != nil {
				so.srvState = r.srvChan.State()
			}
			r.steps = append(r.steps, so)
			if in.vanish {
				r.vanished = true
				rt.Quiesce()
				r.steps = append(r.steps, stepObs{in: input{name: "close(vanish)", kind: "close"}})
				model.stage = stSilent
				break
			}
			if tlsBroken {
				r.steps = append(r.steps, stepObs{in: input{name: "close(tls-broken)", kind: "close"}})
				model.stage = stSilent
				break
			}
			if model.advance(so) {
				break
			}
		}
		// script exhausted while the server still waits for input: the client
		// vanishes (closes), which the server must survive and clean up after
		if st := model.stage; st == stAwaitNew || st == stAwaitChoice || st == stAwaitAuth {
			if ip != nil {
				_ = ip.t.Close()
			} else {
				_ = peer.Conn.Close()
			}
			r.steps = append(r.steps, stepObs{in: input{name: "close(script-end)", kind: "close"}})
			x.Obs("script end: client closes")
		}
		// closure: wait (virtual time) for the server to close the connection
		if r.steps[len(r.steps)-1].in.kind != "close" {
			if ip != nil {
				r.eof, r.extraAfter = ip.waitEOF(45 * time.Second)
			} else {
				r.eof, r.extraAfter = peer.WaitEOF(45 * time.Second)
			}
		} else {
			r.eof = true
			time.Sleep(45 * time.Second)
		}
		x.Obs("end eof=%v extra=%d", r.eof, len(r.extraAfter))
		rt.Stop()
	}
}

// ---- reference model ------------------------------------------------------------------

const (
	stAwaitNew = iota
	stAwaitChoice
	stAwaitAuth
	stEstablished
	stFailed // server answered failed: terminal
	stSilent // nothing more may be emitted (non-session / undecodable input, callback error, client gone)
)

type model struct {
	cfg      Config
	stage    int
	sid      string
	offEnc   []string
	offComp  []string
	pendEnc  string
	stepIdx  int
	authIdx  int
	regIdx   int
	problems []harness.Violation
	terminal bool
	// what the protocol required at the step that ended the exchange
	mustFail bool
}

func newModel(cfg Config) *model { return &model{cfg: cfg} }

// classify says what the protocol makes of a client input in the current stage.
func (m *model) classify(in input) string {
	switch in.kind {
	case "close", "halfclose":
		return "disconnect"
	case "garbage":
		return "undecodable"
	case "data":
		return "nonsession"
	}
	idOK := func() bool { return in.id == "echo" }
	switch m.stage {
	case stAwaitNew:
		// (before the server's first envelope there is no id to echo: "echo" sends none)
		if in.state == "new" && (in.id == "" || in.id == "echo") {
			return "valid"
		}
		return "violation"
	case stAwaitChoice:
		if in.state == "negotiating" && idOK() && in.enc != "" && in.comp != "" && has(m.offEnc, in.enc) && has(m.offComp, in.comp) {
			return "valid"
		}
		return "violation"
	case stAwaitAuth:
		if in.state == "authenticating" && idOK() && in.scheme != "" && hasScheme(m.cfg, in.scheme) {
			return "valid"
		}
		return "violation"
	}
	return "after-end"
}

func hasScheme(c Config, s string) bool {
	for _, x := range c.Schemes {
		if string(x) == s {
			return true
		}
	}
	return false
}

// advance only tracks the stage (used by the body to know when the exchange
// is over); the full comparison is done in judge. Returns true when terminal.
func (m *model) advance(so stepObs) bool {
	cls := m.classify(so.in)
	switch cls {
	case "disconnect", "undecodable", "nonsession":
		m.stage = stSilent
		return true
	case "violation":
		m.stage = stFailed
		return true
	case "after-end":
		return true
	}
	// valid input: follow what the server did
	for _, e := range so.got {
		switch lib.Str(e, "state") {
		case "negotiating":
			if e["encryptionOptions"] != nil || e["compressionOptions"] != nil {
				m.offEnc = strs(e["encryptionOptions"])
				m.offComp = strs(e["compressionOptions"])
				m.stage = stAwaitChoice
			}
		case "authenticating":
			m.stage = stAwaitAuth
		case "established":
			m.stage = stEstablished
			return true
		case "failed", "finished":
			m.stage = stFailed
			return true
		}
	}
	if len(so.got) == 0 {
		m.stage = stSilent
		return true
	}
	return false
}

func strs(v interface{}) []string {
	l, _ := v.([]interface{})
	var o []string
	for _, x := range l {
		s, _ := x.(string)
		o = append(o, s)
	}
	return o
}

func eqStrs(a, b []string) bool {
	if len(a) != len(b) {
		return false
	}
	for i := range a {
		if a[i] != b[i] {
			return false
		}
	}
	return true
}

// ---- oracles ------------------------------------------------------------------------------

// Clause identifiers are prefixed with the property they belong to.
func judge(prop string) func(x *harness.X, res *rt.Result) {
	return func(x *harness.X, res *rt.Result) {
		want := func(p string) bool { return p == prop }
		if res.Crash != "" {
			x.Failf(prop+":crash:"+res.CrashSite, "panic: %s", strings.SplitN(res.Crash, "\n", 2)[0])
			return
		}
		r, _ := x.Vars["run"].(*run)
		if r == nil || len(r.steps) == 0 {
			return
		}
		cfg := r.cfg
		script := func() string {
			var s []string
			for _, st := range r.steps {
				s = append(s, st.in.name)
			}
			return fmt.Sprintf("[cfg %s; %s; client: %s]", cfg.Name, r.variant, strings.Join(s, " -> "))
		}
		m := newModel(cfg)
		var emitted []map[string]interface{}
		var emittedTLS []bool
		serverNode := lib.ServerNode.String()
		negotiatedEnc := "" // confirmed encryption ("" = no negotiation happened)
		established := false
		authOK := false // the latest Authenticate returned a known role and Register then succeeded
		var estEnv map[string]interface{}
		authCursor := 0
		latestAuthEnv := -1
		lastState := -1
		for si, so := range r.steps {
			cls := m.classify(so.in)
			stageBefore := m.stage
			if so.in.kind == "session" && so.in.state == "authenticating" {
				latestAuthEnv = si
			}
			if so.in.vanish {
				// the client sent this and hung up without reading: nothing the server
				// emitted afterwards was observed; only the callbacks are accounted for
				if cls == "valid" && stageBefore == stAwaitAuth && authCursor < len(r.auths) {
					ac := r.auths[authCursor]
					authCursor++
					if ac.outcome == 0 && m.regIdx < len(r.regs) {
						authOK = r.regs[m.regIdx].outcome != 2
						m.regIdx++
					}
				}
				m.stage = stSilent
				break
			}
			// -- C07 (iii): visible state never moves backwards
			if want("C07") && so.srvState != "" {
				if st := so.srvState.Step(); st < lastState {
					x.Failf("C07:state-regressed", "server State() went from step %d to %s %s", lastState, so.srvState, script())
				} else {
					lastState = st
				}
			}
			for ei, e := range so.got {
				emitted = append(emitted, e)
				emittedTLS = append(emittedTLS, so.gotTLS[ei])
				// -- C07 (ii): ids and sender
				if want("C07") {
					if _, isSes := e["state"]; !isSes {
						x.Failf("C07:non-session-emission", "server emitted a non-session envelope during the handshake: %v %s", e, script())
					}
					if lib.Str(e, "id") != r.sid || r.sid == "" {
						x.Failf("C07:session-id-changed", "emission %v carries id %q, first emission carried %q %s", e["state"], lib.Str(e, "id"), r.sid, script())
					}
					if r.variant == "channel" && lib.Str(e, "id") != "sid-fixed" {
						x.Failf("C07:session-id-not-assigned", "emission carries id %q, channel was created with sid-fixed %s", lib.Str(e, "id"), script())
					}
					if lib.Str(e, "from") != serverNode {
						x.Failf("C07:from-not-server", "emission %v has from=%q, server node is %q %s", e["state"], lib.Str(e, "from"), serverNode, script())
					}
				}
			}
			switch cls {
			case "violation":
				// -- C09: only a pair chosen from the offer is ever confirmed; any other choice gets a failed session
				if want("C09") && stageBefore == stAwaitChoice && so.in.state == "negotiating" && so.in.id == "echo" {
					for _, e := range so.got {
						if lib.Str(e, "state") == "negotiating" && e["encryptionOptions"] == nil {
							x.Failf("C09:confirmed-unoffered", "the server confirmed (%s,%s) although the offer was enc=%v comp=%v %s", lib.Str(e, "encryption"), lib.Str(e, "compression"), m.offEnc, m.offComp, script())
						}
					}
					if !(len(so.got) == 1 && lib.Str(so.got[0], "state") == "failed") {
						x.Failf("C09:unoffered-choice-not-failed", "the choice (%s,%s) is not in the offer enc=%v comp=%v but was answered with %v %s", so.in.enc, so.in.comp, m.offEnc, m.offComp, states(so.got), script())
					}
				}
				// -- C07 (iv): answered with failed + reason, nothing more, connection closed
				if want("C07") {
					ok := len(so.got) == 1 && lib.Str(so.got[0], "state") == "failed"
					if !ok {
						x.Failf(fmt.Sprintf("C07:violation-not-failed:stage%d:%s", stageBefore, so.in.name), "client violation %q in stage %d was answered with %v instead of exactly one failed session %s", so.in.name, stageBefore, states(so.got), script())
					} else if reason, _ := so.got[0]["reason"].(map[string]interface{}); reason == nil || (reason["code"] == nil && reason["description"] == nil) {
						x.Failf("C07:failed-without-reason", "failed session without a reason %v %s", so.got[0], script())
					}
					if ok && len(r.extraAfter) > 0 {
						x.Failf("C07:emission-after-failed", "server sent %v after the failed session %s", states(r.extraAfter), script())
					}
					if ok && !r.eof {
						x.Failf("C07:no-close-after-failed", "server did not close the connection after the failed session %s", script())
					}
				}
				m.stage = stFailed
			case "nonsession", "undecodable":
				// -- C07 (v): nothing further is emitted
				if want("C07") && (len(so.got) > 0 || len(r.extraAfter) > 0) {
					x.Failf("C07:emission-after-"+cls, "server emitted %v %v after %s input %q %s", states(so.got), states(r.extraAfter), cls, so.in.name, script())
				}
				// -- C06 (receive direction) lives in its own check
				m.stage = stSilent
			case "disconnect":
				m.stage = stSilent
			case "valid":
				switch stageBefore {
				case stAwaitNew:
					if len(so.got) == 1 && lib.Str(so.got[0], "state") == "negotiating" {
						e := so.got[0]
						m.offEnc, m.offComp = strs(e["encryptionOptions"]), strs(e["compressionOptions"])
						// -- C09: offer == configured ∩ supported, configuration order
						if want("C09") {
							if !eqStrs(m.offEnc, offerEnc(cfg)) || !eqStrs(m.offComp, offerComp(cfg)) {
								x.Failf("C09:offer-mismatch", "offered enc=%v comp=%v, configured∩supported is enc=%v comp=%v %s", m.offEnc, m.offComp, offerEnc(cfg), offerComp(cfg), script())
							}
						}
						m.stage = stAwaitChoice
					} else if len(so.got) == 1 && lib.Str(so.got[0], "state") == "authenticating" {
						m.stage = stAwaitAuth
					} else if (len(offerComp(cfg)) == 0 || len(offerEnc(cfg)) == 0) && (len(so.got) == 0 || len(so.got) == 1 && lib.Str(so.got[0], "state") == "failed") {
						// a configuration that shares no compression (or encryption) with the
						// connection cannot be negotiated: the server gives the connection up
						m.stage = stSilent
					} else if want("C07") {
						x.Failf("C07:order:after-new", "after a valid new session the server emitted %v (expected negotiating options or an authentication request) %s", states(so.got), script())
						m.stage = stSilent
					} else {
						m.stage = stSilent
					}
				case stAwaitChoice:
					// confirmation with the same pair, then (after the switch) the authentication request
					okConf := len(so.got) >= 1 && lib.Str(so.got[0], "state") == "negotiating" && lib.Str(so.got[0], "encryption") == so.in.enc && lib.Str(so.got[0], "compression") == so.in.comp && so.got[0]["encryptionOptions"] == nil
					if !okConf {
						if want("C07") || want("C09") {
							x.Failf(prop+":order:after-choice", "after a valid option choice (%s,%s) the server emitted %v (expected the confirmation) %s", so.in.enc, so.in.comp, states(so.got), script())
						}
						m.stage = stSilent
						break
					}
					negotiatedEnc = so.in.enc
					if len(so.got) == 2 && lib.Str(so.got[1], "state") == "authenticating" {
						m.stage = stAwaitAuth
						// -- C09: after confirmation nothing travels in cleartext
						if want("C09") && negotiatedEnc == "tls" && !so.gotTLS[1] {
							x.Failf("C09:cleartext-after-confirmation", "authentication request arrived in cleartext after tls was confirmed %s", script())
						}
					} else if len(so.got) == 1 {
						m.stage = stSilent // e.g. the TLS upgrade failed: closure is C14's subject
					} else {
						if want("C07") {
							x.Failf("C07:order:after-confirmation", "after the confirmation the server emitted %v %s", states(so.got[1:]), script())
						}
						m.stage = stSilent
					}
				case stAwaitAuth:
					// the callback must have been consulted with what the client presented
					if authCursor >= len(r.auths) {
						if want("C03") && anyState(so.got, "established") {
							x.Failf("C03:established-without-authenticate", "established without an Authenticate call %s", script())
						}
						m.stage = stSilent
						break
					}
					ac := r.auths[authCursor]
					authCursor++
					if want("C03") {
						wantCanon := lib.Canon(authObjTyped(so.in))
						// the callback learns the scheme only through the credentials
						// object; a client that presented none gets a nil one
						if so.in.auth == "" {
							wantCanon = "null"
						}
						wantIdentity := lime.ParseNode(so.in.sender()).Identity.String()
						if ac.identity != wantIdentity || (so.in.auth != "" && ac.scheme != so.in.scheme) || ac.canon != wantCanon {
							x.Failf("C03:authenticate-args", "Authenticate called with (%s,%s,%s), the client presented (%s,%s,%s) %s", ac.identity, ac.scheme, ac.canon, wantIdentity, so.in.scheme, wantCanon, script())
						}
						if so.in.auth != "" && !hasScheme(cfg, ac.scheme) {
							x.Failf("C03:unoffered-scheme-authenticated", "Authenticate called for scheme %q which was not offered %s", ac.scheme, script())
						}
					}
					if want("C03") && ac.real && ac.innerMismatch != "" {
						x.Failf("C03:builder-authenticator-credentials", "for (%s,%s,%s): %s %s", ac.identity, ac.scheme, ac.canon, ac.innerMismatch, script())
					}
					if want("C03") && ac.real && (ac.outcome == 0) != ac.shouldAccept {
						x.Failf("C03:builder-authenticate-dispatch", "the ServerBuilder's Authenticate returned outcome %d for (%s,%s,%s) but the registered authenticator accepts it: %v %s", ac.outcome, ac.identity, ac.scheme, ac.canon, ac.shouldAccept, script())
					}
					// -- C10: never consult credentials over cleartext when none is not configured
					if want("C10") && noCleartextCfg(cfg) && ac.encAt != "tls" {
						x.Failf("C10:authenticate-over-cleartext", "Authenticate ran while the connection encryption was %q (configured %v) %s", ac.encAt, cfg.Enc, script())
					}
					switch ac.outcome {
					case 0: // known role
						var rc *regCall
						if m.regIdx < len(r.regs) {
							rc = &r.regs[m.regIdx]
							m.regIdx++
						}
						authOK = rc != nil && rc.outcome != 2
						// the node that is registered is the one of the envelope that was authenticated
						if want("C03") && rc != nil && rc.candidate != so.in.sender() {
							x.Failf("C03:register-candidate", "Register was given the node %q, the authenticated envelope came from %q %s", rc.candidate, so.in.sender(), script())
						}
						if anyState(so.got, "established") {
							established = true
							estEnv = so.got[len(so.got)-1]
							if want("C03") {
								if rc == nil {
									x.Failf("C03:established-without-register", "established without a Register call %s", script())
								} else if rc.outcome == 2 {
									x.Failf("C03:established-after-register-error", "established although Register returned an error %s", script())
								} else if lib.Str(estEnv, "to") != rc.returned {
									x.Failf("C03:established-wrong-node", "established announces %q, Register returned %q %s", lib.Str(estEnv, "to"), rc.returned, script())
								}
							}
							m.stage = stEstablished
						} else {
							if rc != nil && rc.outcome != 2 && want("C03") == false && want("C07") {
								x.Failf("C07:order:no-established", "authentication and registration succeeded but the server emitted %v %s", states(so.got), script())
							}
							m.stage = stSilent
						}
					case 2: // round trip
						if len(so.got) == 1 && lib.Str(so.got[0], "state") == "authenticating" {
							m.stage = stAwaitAuth
						} else {
							if want("C07") {
								x.Failf("C07:order:roundtrip", "round-trip result but the server emitted %v %s", states(so.got), script())
							}
							m.stage = stSilent
						}
						if want("C03") && anyState(so.got, "established") {
							x.Failf("C03:established-on-roundtrip", "established on a round-trip result %s", script())
						}
					case 1, 4: // unknown / empty role: rejected credentials
						if want("C03") && anyState(so.got, "established") {
							x.Failf("C03:established-on-unknown-role", "established although Authenticate returned role %q %s", map[int]string{1: "unknown", 4: ""}[ac.outcome], script())
						}
						if want("C07") && !(len(so.got) == 1 && lib.Str(so.got[0], "state") == "failed") {
							x.Failf("C07:rejected-credentials-not-failed", "rejected credentials answered with %v %s", states(so.got), script())
						}
						m.stage = stFailed
					case 3: // callback error
						if want("C03") && anyState(so.got, "established") {
							x.Failf("C03:established-on-authenticate-error", "established although Authenticate returned an error %s", script())
						}
						m.stage = stSilent
					}
				}
			}
			// -- C10: no authentication request / established emission in cleartext
			if want("C10") && noCleartextCfg(cfg) {
				for ei, e := range so.got {
					st := lib.Str(e, "state")
					if (st == "authenticating" || st == "established") && !so.gotTLS[ei] {
						x.Failf("C10:"+st+"-over-cleartext", "server sent %s over an unencrypted connection although it is configured with %v %s", st, cfg.Enc, script())
					}
				}
			}
			_ = latestAuthEnv
			if m.stage == stFailed || m.stage == stSilent || m.stage == stEstablished {
				break
			}
		}
		// -- C07 (i): overall emission order
		if want("C07") {
			if bad := orderViolation(emitted); bad != "" {
				x.Failf("C07:order", "session envelopes out of protocol order: %s %s", bad, script())
			}
		}
		// -- C03: whatever was observed as established must be backed by authentication
		if want("C03") {
			any := false
			for _, e := range emitted {
				if lib.Str(e, "state") == "established" {
					any = true
				}
			}
			chanEst := r.srvChan != nil && r.steps[len(r.steps)-1].srvState == lime.SessionStateEstablished
			if (any || chanEst) && !authOK {
				x.Failf("C03:established-unbacked", "an established session was observed (envelope=%v channel=%v) without a successful authentication+registration %s", any, chanEst, script())
			}
			if r.estCb > 0 && !authOK {
				x.Failf("C03:established-callback-unbacked", "the Established callback fired although no authentication+registration had succeeded on this connection %s", script())
			}
			for _, a := range r.auths {
				if a.afterFin {
					x.Failf("C03:authenticate-after-end", "Authenticate was called after the session had failed/finished %s", script())
				}
			}
			if established && r.srvChan != nil {
				if rn := r.srvChan.RemoteNode().String(); rn != lib.Str(estEnv, "to") {
					x.Failf("C03:remote-node-mismatch", "RemoteNode()=%q but established announced %q %s", rn, lib.Str(estEnv, "to"), script())
				}
			}
		}
		// -- C14: every connection that failed to establish is released
		// a client that hung up without reading may still have been established from the
		// server's point of view (its established envelope went out): not a failed handshake.
		// Under TLS the tap cannot tell, so those paths are left undecided.
		srvSideEstablished := r.srvWroteEst || (r.vanished && r.srvTr != nil && string(r.srvTr.Encryption()) == "tls")
		if r.variant == "server-inproc" {
			srvSideEstablished = false // a send to a closed in-process transport always fails
		}
		if want("C14") && (r.variant == "server" || r.variant == "server-ws" || r.variant == "server-inproc") && !established && !srvSideEstablished {
			if !r.eof {
				x.Failf("C14:not-closed:"+endClass(r, m), "handshake did not establish but the server never closed the connection (client saw no EOF within 45s of virtual time) %s", script())
			}
			for _, g := range res.Alive {
				// what legitimately lives on: the harness (main, the ListenAndServe caller) and the
				// server's accept/consume loops (errgroup goroutines); anything else belongs to the connection
				if g.Name == "main" || strings.HasPrefix(g.Name, "body.func") || g.Name == "Go.func" {
					continue
				}
				x.Failf("C14:goroutine-left:"+g.Name, "goroutine %s (%s) is left behind by the failed handshake %s", g.Name, g.PendTag(), script())
			}
			if r.srvConn != nil && !r.srvConn.IsClosed() {
				x.Failf("C14:server-socket-open:"+endClass(r, m), "the handshake did not establish but the server never closed its end of the connection %s", script())
			}
			if r.estCb != 0 || r.finCb != 0 {
				x.Failf(fmt.Sprintf("C14:callbacks:est%d-fin%d:%s", r.estCb, r.finCb, endClass(r, m)), "handshake did not establish but Established fired %d times and Finished %d times %s", r.estCb, r.finCb, script())
			}
		}
		_ = negotiatedEnc
	}
}

// endClass names the way the handshake ended, for signatures.
func endClass(r *run, m *model) string {
	last := r.steps[len(r.steps)-1]
	cls := m.classifyAt(last)
	return cls
}

func (m *model) classifyAt(so stepObs) string {
	switch so.in.kind {
	case "close", "halfclose":
		return "client-" + so.in.kind
	case "garbage":
		return "undecodable-input"
	case "data":
		return "non-session-input"
	}
	if anyState(so.got, "failed") {
		return "failed-session-sent"
	}
	if len(so.got) == 0 {
		return "no-answer"
	}
	return "answered-" + strings.Join(states(so.got), "+")
}

func noCleartextCfg(c Config) bool {
	hasNone, hasOther := false, false
	for _, e := range c.Enc {
		if e == none {
			hasNone = true
		} else {
			hasOther = true
		}
	}
	return !hasNone && hasOther && c.TLS
}

func authObjTyped(in input) lime.Authentication {
	switch in.auth {
	case "bad":
		switch in.scheme {
		case "plain":
			return &lime.PlainAuthentication{Password: "d3Jvbmc="}
		case "key":
			return &lime.KeyAuthentication{Key: "d3Jvbmc="}
		case "external":
			return &lime.ExternalAuthentication{Token: "tok", Issuer: "evil"}
		}
	case "b64":
		if in.scheme == "key" {
			return &lime.KeyAuthentication{Key: "!!!not-base64!!!"}
		}
		return &lime.PlainAuthentication{Password: "!!!not-base64!!!"}
	}
	switch in.scheme {
	case "guest":
		return &lime.GuestAuthentication{}
	case "plain":
		return &lime.PlainAuthentication{Password: "c2VjcmV0"}
	case "key":
		return &lime.KeyAuthentication{Key: "a2V5"}
	case "transport":
		return &lime.TransportAuthentication{}
	case "external":
		return &lime.ExternalAuthentication{Token: "tok", Issuer: "iss"}
	}
	return nil
}

func states(l []map[string]interface{}) []string {
	var o []string
	for _, e := range l {
		if s := lib.Str(e, "state"); s != "" {
			o = append(o, s)
		} else {
			o = append(o, fmt.Sprint(e))
		}
	}
	return o
}

func anyState(l []map[string]interface{}, s string) bool {
	for _, e := range l {
		if lib.Str(e, "state") == s {
			return true
		}
	}
	return false
}

// orderViolation checks negOptions? negConfirm? auth+ established? (finished|failed)?
func orderViolation(em []map[string]interface{}) string {
	phase := 0 // 0 start, 1 options sent, 2 confirmed, 3 auth, 4 established, 5 ended
	for i, e := range em {
		st := lib.Str(e, "state")
		switch st {
		case "negotiating":
			if e["encryptionOptions"] != nil || e["compressionOptions"] != nil {
				if phase != 0 {
					return fmt.Sprintf("emission %d: negotiating options in phase %d", i, phase)
				}
				phase = 1
			} else {
				if phase != 1 {
					return fmt.Sprintf("emission %d: negotiation confirmation in phase %d", i, phase)
				}
				phase = 2
			}
		case "authenticating":
			if phase == 1 || phase > 3 {
				return fmt.Sprintf("emission %d: authenticating in phase %d", i, phase)
			}
			phase = 3
		case "established":
			if phase == 1 || phase >= 4 {
				return fmt.Sprintf("emission %d: established in phase %d", i, phase)
			}
			phase = 4
		case "finished", "failed":
			if phase == 5 {
				return fmt.Sprintf("emission %d: second terminal envelope", i)
			}
			phase = 5
		default:
			return fmt.Sprintf("emission %d: unexpected state %q", i, st)
		}
	}
	return ""
}

// ---- C09 (c): both roles implemented by the library --------------------------------------

type pairRun struct {
	cfg        Config
	sel        string
	cliTLS     bool
	confirmed  string // encryption confirmed on the wire ("" = no negotiation happened)
	afterConf  []string
	authEncAt  string
	authCalled bool
	cliErr     error
	srvErr     error
	cliState   lime.SessionState
	cliEnc     string
	srvEnc     string
	cliComp    string
	srvComp    string
	snap       bool
}

// ---- one server, several connections over different transports ----------------------------
//
// The offer is "configured AND supported by the connection": it must be computed per
// connection and must not depend on which other connections the same server served before.
// A real Server with both encryption options configured (in either order) listens on a pipe
// listener (TLS-capable TCP transport) and on the in-process listener; three scripted peers
// connect one after the other over every sequence of the two transports and present a new
// session; the server's first answer on each is compared with the configured lists.

type connsRun struct {
	order   []string
	enc     []string
	answers []map[string]interface{}
	kinds   []string
	snap    bool
}

func connsBody(x *harness.X) {
	lib.Reset()
	r := &connsRun{}
	x.Vars["conns"] = r
	encs := [][]lime.SessionEncryption{{lime.SessionEncryptionTLS, lime.SessionEncryptionNone}, {lime.SessionEncryptionNone, lime.SessionEncryptionTLS}}[rt.Choose(2)]
	for _, e := range encs {
		r.enc = append(r.enc, string(e))
	}
	for i := 0; i < 3; i++ {
		r.kinds = append(r.kinds, []string{"tcp", "inproc"}[rt.Choose(2)])
	}
	sc := lime.NewServerConfig()
	sc.Node = lib.ServerNode
	sc.SchemeOpts = []lime.AuthenticationScheme{lime.AuthenticationSchemeGuest}
	sc.EncryptOpts = encs
	sc.CompOpts = []lime.SessionCompression{lime.SessionCompressionNone}
	sc.Backlog, sc.ChannelBufferSize = 1, 1
	sc.Authenticate, sc.Register = lib.GuestOK, lib.RegisterSame
	pl := lib.NewPipeListener(&lime.TCPConfig{TLSConfig: lib.TLSServerConfig()}, 64<<10, 1)
	inaddr := lime.InProcessAddr("hsrv-conns")
	srv := lime.NewServer(sc, &lime.EnvelopeMux{}, lime.NewBoundListener(pl, lib.PipeAddr("p")),
		lime.NewBoundListener(lime.NewInProcessTransportListener(inaddr), inaddr))
	go func() { _ = srv.ListenAndServe() }()
	rt.Quiesce()
	for _, k := range r.kinds {
		var ans map[string]interface{}
		if k == "tcp" {
			conn := pl.Dial()
			p := lib.NewRawPeer(conn)
			p.Block = true
			_ = p.Send([]byte(`{"state":"new"}`))
			if m, ok := p.ReadOne(30 * time.Second); ok {
				ans = m
			}
			_ = conn.Close()
		} else {
			t, ok := lib.TryDialInProc(inaddr, 1)
			if ok {
				ctx, cancel := context.WithTimeout(context.Background(), 30*time.Second)
				_ = t.Send(ctx, &lime.Session{State: lime.SessionStateNew})
				if env, err := t.Receive(ctx); err == nil {
					if b, err := json.Marshal(env); err == nil {
						_ = json.Unmarshal(b, &ans)
					}
				}
				cancel()
				_ = t.Close()
			}
		}
		r.answers = append(r.answers, ans)
		x.Obs("%s connection: first answer state=%s encryptionOptions=%v", k, lib.Str(ans, "state"), ans["encryptionOptions"])
		rt.Quiesce()
	}
	_ = srv.Close()
	rt.Quiesce()
	r.snap = true
	rt.Stop()
}

func connsFinal(x *harness.X, res *rt.Result) {
	r, _ := x.Vars["conns"].(*connsRun)
	if r == nil {
		return
	}
	hist := fmt.Sprintf("[configured encryption %v; connections %v; %s]", r.enc, r.kinds, strings.Join(x.Log(), " | "))
	if res.Crash != "" {
		x.Failf("C09:panic:"+res.CrashSite, "%s %s", strings.SplitN(res.Crash, "\n", 2)[0], hist)
		return
	}
	if !r.snap {
		return
	}
	strs := func(v interface{}) []string {
		var o []string
		l, _ := v.([]interface{})
		for _, e := range l {
			o = append(o, fmt.Sprint(e))
		}
		return o
	}
	for i, k := range r.kinds {
		ans := r.answers[i]
		switch k {
		case "tcp":
			// both configured options are supported: the offer is the configured list
			if lib.Str(ans, "state") != "negotiating" || strings.Join(strs(ans["encryptionOptions"]), ",") != strings.Join(r.enc, ",") {
				x.Failf("C09:offer-depends-on-earlier-connections", "connection %d (tcp, TLS-capable) was answered state=%q encryptionOptions=%v, configured and supported: %v %s", i, lib.Str(ans, "state"), ans["encryptionOptions"], r.enc, hist)
			}
			if lib.Str(ans, "state") == "negotiating" && strings.Join(strs(ans["compressionOptions"]), ",") != "none" {
				x.Failf("C09:offer-compression", "connection %d (tcp) was offered compressionOptions=%v, configured and supported: [none] %s", i, ans["compressionOptions"], hist)
			}
		default:
			// the in-process transport supports no encryption: nothing to negotiate, or an offer of exactly [none]
			st := lib.Str(ans, "state")
			if !(st == "authenticating" || st == "negotiating" && strings.Join(strs(ans["encryptionOptions"]), ",") == "none") {
				x.Failf("C09:offer-inproc", "connection %d (in-process) was answered state=%q encryptionOptions=%v %s", i, st, ans["encryptionOptions"], hist)
			}
		}
	}
}

// ---- both ends made by the builders ----------------------------------------------------------
//
// A Server assembled by ServerBuilder (node, enabled schemes with real authenticators,
// Register/Established/Finished) and a Client assembled by ClientBuilder (node, one of the
// authentication helpers) meet over the in-process transport. Every combination of client
// credentials, enabled schemes, Register outcome and client name is one execution.

type bpRun struct {
	auth, enabled, name string
	regOutcome          int
	inner               []string
	regCand, regRet     string
	estCb, finCb        int
	estRemote           string
	estErr              error
	handlerRemote       string
	handlerLocal        string
	handled             int
	sendErr             error
	snap                bool
}

const bpUUID = "0c1d9c4e-7b0f-4a55-9c2e-4f8a1f5e6d70"

func builderPairBody(x *harness.X) {
	lib.Reset()
	r := &bpRun{}
	x.Vars["bp"] = r
	r.auth = []string{"guest", "plain-right", "plain-wrong", "key-right", "key-wrong", "external-right", "external-wrong", "transport"}[rt.Choose(8)]
	r.enabled = []string{"all", "guest+plain", "key+external+transport"}[rt.Choose(3)]
	r.regOutcome = rt.Choose(3)
	r.name = []string{"alice", bpUUID}[rt.Choose(2)]
	addr := lime.InProcessAddr("hsrv-builders")
	sb := lime.NewServerBuilder().Name("postmaster").Domain("srv.test").Instance("s1").ListenInProcess(addr).ChannelBufferSize(1)
	on := func(s string) bool { return r.enabled == "all" || strings.Contains(r.enabled, s) }
	accept := func(ok bool) (*lime.AuthenticationResult, error) {
		if ok {
			return lime.MemberAuthenticationResult(), nil
		}
		return lime.UnknownAuthenticationResult(), nil
	}
	if on("guest") {
		sb = sb.EnableGuestAuthentication()
	}
	if on("plain") {
		sb = sb.EnablePlainAuthentication(func(ctx context.Context, id lime.Identity, pw string) (*lime.AuthenticationResult, error) {
			r.inner = append(r.inner, "plain:"+id.String()+":"+pw)
			return accept(pw == "secret")
		})
	}
	if on("key") {
		sb = sb.EnableKeyAuthentication(func(ctx context.Context, id lime.Identity, key string) (*lime.AuthenticationResult, error) {
			r.inner = append(r.inner, "key:"+id.String()+":"+key)
			return accept(key == "k3y")
		})
	}
	if on("external") {
		sb = sb.EnableExternalAuthentication(func(ctx context.Context, id lime.Identity, token, issuer string) (*lime.AuthenticationResult, error) {
			r.inner = append(r.inner, "external:"+id.String()+":"+token+"|"+issuer)
			return accept(token == "tok" && issuer == "iss")
		})
	}
	if on("transport") {
		sb = sb.EnableTransportAuthentication()
	}
	sb = sb.Register(func(ctx context.Context, cand lime.Node, c *lime.ServerChannel) (lime.Node, error) {
		r.regCand = cand.String()
		switch r.regOutcome {
		case 1:
			n := lime.Node{Identity: lime.Identity{Name: "assigned", Domain: "srv.test"}, Instance: "r1"}
			r.regRet = n.String()
			return n, nil
		case 2:
			return lime.Node{}, errors.New("register refuses")
		}
		r.regRet = cand.String()
		return cand, nil
	}).Established(func(id string, c *lime.ServerChannel) {
		r.estCb++
		r.estRemote = c.RemoteNode().String()
		x.Obs("established-callback remote=%s", r.estRemote)
	}).Finished(func(id string) {
		r.finCb++
		x.Obs("finished-callback")
	}).MessagesHandlerFunc(func(ctx context.Context, m *lime.Message, snd lime.Sender) error {
		rn, _ := lime.ContextSessionRemoteNode(ctx)
		ln, _ := lime.ContextSessionLocalNode(ctx)
		r.handlerRemote, r.handlerLocal = rn.String(), ln.String()
		r.handled++
		return nil
	})
	srv := sb.Build()
	go func() { _ = srv.ListenAndServe() }()
	rt.Quiesce()
	cb := lime.NewClientBuilder().Name(r.name).Domain("cli.test").Instance("home").UseInProcess(addr, 1).ChannelBufferSize(1).
		Compression(lime.SessionCompressionNone).Encryption(lime.SessionEncryptionNone)
	switch r.auth {
	case "guest":
		cb = cb.GuestAuthentication()
	case "plain-right":
		cb = cb.PlainAuthentication("secret")
	case "plain-wrong":
		cb = cb.PlainAuthentication("guess")
	case "key-right":
		cb = cb.KeyAuthentication("k3y")
	case "key-wrong":
		cb = cb.KeyAuthentication("nope")
	case "external-right":
		cb = cb.ExternalAuthentication("tok", "iss")
	case "external-wrong":
		cb = cb.ExternalAuthentication("tok", "other")
	case "transport":
		cb = cb.TransportAuthentication()
	}
	client := cb.Build()
	ctx, cancel := context.WithTimeout(context.Background(), 30*time.Second)
	defer cancel()
	r.estErr = client.Establish(ctx)
	x.Obs("client Establish err=%v", r.estErr != nil)
	if r.estErr == nil {
		sctx, c2 := context.WithTimeout(context.Background(), 3*time.Second)
		r.sendErr = client.SendMessage(sctx, lib.Msg("m1", "hi"))
		c2()
		rt.Quiesce()
	}
	_ = client.Close()
	rt.Quiesce()
	_ = srv.Close()
	rt.Quiesce()
	r.snap = true
	rt.Stop()
}

func builderPairFinal(x *harness.X, res *rt.Result) {
	r, _ := x.Vars["bp"].(*bpRun)
	if r == nil {
		return
	}
	hist := fmt.Sprintf("[client %s as %q; server enables %s; Register outcome %d; %s]", r.auth, r.name, r.enabled, r.regOutcome, strings.Join(x.Log(), " | "))
	if res.Crash != "" {
		x.Failf("C03:builders:panic:"+res.CrashSite, "%s %s", strings.SplitN(res.Crash, "\n", 2)[0], hist)
		return
	}
	if !r.snap {
		return
	}
	scheme := strings.SplitN(r.auth, "-", 2)[0]
	offered := r.enabled == "all" || strings.Contains(r.enabled, scheme)
	identity := r.name + "@cli.test"
	var wantInner []string
	credOK := false
	switch r.auth {
	case "guest":
		credOK = r.name == bpUUID
	case "plain-right", "plain-wrong":
		pw := map[string]string{"plain-right": "secret", "plain-wrong": "guess"}[r.auth]
		wantInner = []string{"plain:" + identity + ":" + pw}
		credOK = r.auth == "plain-right"
	case "key-right", "key-wrong":
		k := map[string]string{"key-right": "k3y", "key-wrong": "nope"}[r.auth]
		wantInner = []string{"key:" + identity + ":" + k}
		credOK = r.auth == "key-right"
	case "external-right", "external-wrong":
		is := map[string]string{"external-right": "iss", "external-wrong": "other"}[r.auth]
		wantInner = []string{"external:" + identity + ":tok|" + is}
		credOK = r.auth == "external-right"
	}
	if !offered {
		wantInner = nil
	}
	want := offered && credOK && r.regOutcome != 2
	if got := r.estErr == nil; got != want {
		x.Failf("C03:builders:established-mismatch", "client Establish succeeded=%v, but scheme offered=%v, credentials acceptable=%v, Register outcome=%d %s", got, offered, credOK, r.regOutcome, hist)
	}
	// (the Client retries a failed establishment until its context ends: the same
	// consultation may repeat)
	var uniq []string
	for _, c := range r.inner {
		if len(uniq) == 0 || uniq[len(uniq)-1] != c {
			uniq = append(uniq, c)
		}
	}
	if strings.Join(uniq, ",") != strings.Join(wantInner, ",") {
		x.Failf("C03:builders:authenticator-consulted", "registered authenticators were consulted about %q, expected %q %s", uniq, wantInner, hist)
	}
	wantCb := 0
	if want {
		wantCb = 1
	}
	if r.estCb != wantCb || r.finCb != wantCb {
		x.Failf(fmt.Sprintf("C03:builders:callbacks:est%d-fin%d", r.estCb, r.finCb), "Established fired %d times and Finished %d times, expected %d each %s", r.estCb, r.finCb, wantCb, hist)
	}
	if offered && credOK && r.regCand != identity+"/home" {
		x.Failf("C03:builders:register-candidate", "Register was offered %q, the client was built as %q %s", r.regCand, identity+"/home", hist)
	}
	if want && r.estErr == nil {
		if r.estRemote != r.regRet {
			x.Failf("C03:builders:established-node", "the established session's remote node is %q, Register returned %q %s", r.estRemote, r.regRet, hist)
		}
		if r.sendErr != nil || r.handled != 1 {
			x.Failf("C03:builders:session-unusable", "message on the fresh session: send error %v, handled %d times %s", r.sendErr, r.handled, hist)
		} else if r.handlerRemote != r.regRet || r.handlerLocal != "postmaster@srv.test/s1" {
			x.Failf("C03:builders:handler-context", "handler saw remote %q local %q, expected %q and postmaster@srv.test/s1 %s", r.handlerRemote, r.handlerLocal, r.regRet, hist)
		}
	}
}

// pairBody runs the real client channel against the real server channel over a virtual
// connection for every configuration x client selector x client TLS capability; a tap on
// both directions classifies every chunk as cleartext JSON or TLS record.
func pairBody(x *harness.X) {
	lib.Reset()
	cfg := Configs[rt.Choose(len(Configs))]
	r := &pairRun{cfg: cfg}
	x.Vars["pair"] = r
	r.sel = []string{"none", "tls", "first-offered"}[rt.Choose(3)]
	r.cliTLS = rt.Choose(2) == 1
	c, sconn := rt.Pipe(64 << 10)
	c.Name, sconn.Name = "client", "server"
	tap := func(dir string) func(b []byte) {
		return func(b []byte) {
			kind := "json"
			if lib.IsTLSRecord(b) {
				kind = "tls"
			}
			if r.confirmed != "" {
				r.afterConf = append(r.afterConf, dir+":"+kind)
			}
			if dir == "s>c" && kind == "json" && strings.Contains(string(b), `"state":"negotiating"`) && !strings.Contains(string(b), "encryptionOptions") {
				var m map[string]interface{}
				if json.Unmarshal(b, &m) == nil {
					r.confirmed = lib.Str(m, "encryption")
				}
			}
		}
	}
	c.Tap, sconn.Tap = tap("c>s"), tap("s>c")
	srvCfg, cliCfg := &lime.TCPConfig{}, &lime.TCPConfig{}
	if cfg.TLS {
		srvCfg.TLSConfig = lib.TLSServerConfig()
	}
	if r.cliTLS {
		cliCfg.TLSConfig = lib.TLSClientConfig()
	}
	st := lime.NewTCPTransportFromConn(sconn, srvCfg, true)
	ct := lime.NewTCPTransportFromConn(c, cliCfg, false)
	sc := lime.NewServerChannel(st, 1, lib.ServerNode, "sid-pair")
	cc := lime.NewClientChannel(ct, 1)
	ctx, cancel := context.WithTimeout(context.Background(), 40*time.Second)
	defer cancel()
	done := make(chan struct{})
	go func() {
		defer close(done)
		r.srvErr = sc.EstablishSession(ctx, cfg.Comp, cfg.Enc, cfg.Schemes,
			func(ctx context.Context, id lime.Identity, a lime.Authentication) (*lime.AuthenticationResult, error) {
				r.authCalled = true
				r.authEncAt = string(st.Encryption())
				return lime.MemberAuthenticationResult(), nil
			}, lib.RegisterSame)
	}()
	var encSel lime.EncryptionSelector
	switch r.sel {
	case "none":
		encSel = lime.NoneEncryptionSelector
	case "tls":
		encSel = lime.TLSEncryptionSelector
	default:
		encSel = func(o []lime.SessionEncryption) lime.SessionEncryption {
			if len(o) > 0 {
				return o[0]
			}
			return lime.SessionEncryptionNone
		}
	}
	auth := func(schemes []lime.AuthenticationScheme, _ lime.Authentication) lime.Authentication {
		for _, s := range schemes {
			switch s {
			case lime.AuthenticationSchemeGuest:
				return &lime.GuestAuthentication{}
			case lime.AuthenticationSchemePlain:
				a := &lime.PlainAuthentication{}
				a.SetPasswordAsBase64("secret")
				return a
			case lime.AuthenticationSchemeTransport:
				return &lime.TransportAuthentication{}
			}
		}
		return &lime.GuestAuthentication{}
	}
	ses, err := cc.EstablishSession(ctx, lime.NoneCompressionSelector, encSel, lime.Identity{Name: "alice", Domain: "cli.test"}, auth, "home")
	r.cliErr = err
	if ses != nil {
		r.cliState = ses.State
	}
	if err != nil {
		_ = cc.Close() // a client whose handshake failed hangs up
	}
	<-done
	r.cliEnc, r.srvEnc = string(ct.Encryption()), string(st.Encryption())
	r.cliComp, r.srvComp = string(ct.Compression()), string(st.Compression())
	x.Obs("cfg=%s sel=%s cliTLS=%v confirmed=%q client=%v/%v server-err=%v", cfg.Name, r.sel, r.cliTLS, r.confirmed, r.cliState, err != nil, r.srvErr != nil)
	r.snap = true
	rt.Stop()
}

func pairFinal(x *harness.X, res *rt.Result) {
	r, _ := x.Vars["pair"].(*pairRun)
	if r == nil {
		return
	}
	tag := fmt.Sprintf("[cfg %s; client selector %s, client TLS config %v; %s]", r.cfg.Name, r.sel, r.cliTLS, strings.Join(x.Log(), " | "))
	if res.Crash != "" {
		x.Failf("C09:pair:panic:"+res.CrashSite, "%s %s", strings.SplitN(res.Crash, "\n", 2)[0], tag)
		return
	}
	if !r.snap {
		return
	}
	if r.confirmed == "tls" {
		for i, k := range r.afterConf {
			if strings.HasSuffix(k, ":json") {
				x.Failf("C09:pair:cleartext-after-confirmation", "chunk %d after the tls confirmation travelled in cleartext (%s) %s", i, k, tag)
				break
			}
		}
	}
	if r.authCalled {
		want := "none"
		if r.confirmed != "" {
			want = r.confirmed
		}
		if r.authEncAt != want {
			x.Failf("C09:pair:auth-before-switch", "Authenticate ran with server encryption %q, the confirmed option was %q %s", r.authEncAt, want, tag)
		}
	}
	if r.cliErr == nil && r.cliState == lime.SessionStateEstablished {
		if r.cliEnc != r.srvEnc || r.cliComp != r.srvComp {
			x.Failf("C09:pair:ends-disagree", "established with client encryption/compression %s/%s and server %s/%s %s", r.cliEnc, r.cliComp, r.srvEnc, r.srvComp, tag)
		}
		if r.confirmed != "" && r.cliEnc != r.confirmed {
			x.Failf("C09:pair:confirmed-not-applied", "confirmed encryption %q but the established connection uses %q %s", r.confirmed, r.cliEnc, tag)
		}
		if noCleartextCfg(r.cfg) && r.srvEnc != "tls" {
			x.Failf("C10:pair:established-over-cleartext", "server configured with %v established over %q %s", r.cfg.Enc, r.srvEnc, tag)
		}
	}
}

// Main builds the check for one property out of the shared tree.
func Main(prop string) {
	opt := rt.Options{Horizon: 120 * time.Second, MaxSteps: 100000, NoTimerDeviation: true}
	sel := func(names ...string) []Config {
		var o []Config
		for _, c := range Configs {
			for _, n := range names {
				if c.Name == n {
					o = append(o, c)
				}
			}
		}
		return o
	}
	all := Configs
	var scs []harness.Scenario
	add := func(name, variant string, cfgs []Config, depth int, refuse bool, q, t int) {
		scs = append(scs, harness.Scenario{Name: name, Opt: opt, Quick: q, Thorough: t, Prune: false,
			Body: body(variant, cfgs, depth, refuse), Final: judge(prop)})
	}
	switch prop {
	case "C10":
		c := sel("plain+key/tls-only", "builder:transport+guest/tls-only", "plain/tls-only/gzip-only", "plain/tls-only/cert-by-callback")
		add("server/tls-only/d3", "server", c, 3, true, 0, -1)
		add("channel/tls-only/d3", "channel", c, 3, true, 0, -1)
		add("server/tls-only/d5", "server", c, 5, true, -1, 0)
		add("channel/tls-only/d5", "channel", c, 5, true, -1, 0)
	case "C09":
		scs = append(scs, harness.Scenario{Name: "pair/library-both-roles", Opt: opt, Quick: 0, Thorough: 0, Body: pairBody, Final: pairFinal})
		scs = append(scs, harness.Scenario{Name: "server/3-connections-mixed-transports", Opt: opt, Quick: 0, Thorough: 0, Body: connsBody, Final: connsFinal})
		add("server/all/d4", "server", all, 4, false, 0, -1)
		add("channel/all/d4", "channel", all, 4, false, 0, -1)
		add("server/all/d6", "server", all, 6, true, -1, 0)
		add("channel/all/d6", "channel", all, 6, true, -1, 0)
	case "C14":
		add("server/all/d4", "server", all, 4, true, 0, -1)
		add("server/all/d6", "server", all, 6, true, -1, 0)
		add("server/guest/d3/k1", "server", sel("guest/none"), 3, false, 1, 1)
		add("server/guest/d3/k2", "server", sel("guest/none"), 3, false, -1, 2)
		add("server-inproc/guest+plain/d3", "server-inproc", sel("guest/none", "plain/none+tls"), 3, false, 0, -1)
		add("server-inproc/all/d4", "server-inproc", all, 4, false, -1, 0)
		add("server-ws/guest+plain/d3", "server-ws", sel("guest/none", "plain/none+tls"), 3, false, 0, -1)
		add("server-ws/all/d3", "server-ws", all, 3, false, -1, 0)
	default: // C03, C07
		if prop == "C03" {
			scs = append(scs, harness.Scenario{Name: "builders/handshake", Opt: opt, Quick: 0, Thorough: 0, Body: builderPairBody, Final: builderPairFinal})
		}
		add("server/all/d4", "server", all, 4, false, 0, -1)
		add("channel/all/d4", "channel", all, 4, false, 0, -1)
		add("server/all/d6", "server", all, 6, true, -1, 0)
		add("channel/all/d6", "channel", all, 6, true, -1, 0)
		add("channel/guest+plain/d3/k1", "channel", sel("guest/none", "plain/none+tls"), 3, false, -1, 1)
		add("server/guest/d3/k2", "server", sel("guest/none"), 3, false, -1, 2)
		add("server-inproc/guest+plain/d3", "server-inproc", sel("guest/none", "plain/none+tls"), 3, false, 0, -1)
		add("server-inproc/all/d4", "server-inproc", all, 4, false, -1, 0)
		add("server-ws/guest+plain/d3", "server-ws", sel("guest/none", "plain/none+tls"), 3, false, 0, -1)
		add("server-ws/all/d3", "server-ws", all, 3, false, -1, 0)
	}
	harness.Main(harness.Check{
		Property:  prop,
		Level:     "model_checking",
		Rule:      "script tree: server configuration (6-point lattice of schemes x encryption x compression x TLS capability) x client script over a 33-symbol alphabet (every session state, id variants, option choices, schemes, data envelopes, undecodable input, close/half-close) to the stated depth x every Authenticate outcome (member, unknown, round-trip, error, empty role) x every Register outcome; each path is one execution of the real server code over a virtual connection (real TLS where negotiated), compared step by step with the reference model; distinct outcome = distinct observation log",
		Assume:    []string{"TCP transport over a virtual pipe (no OS sockets) and, in the server-inproc scenarios, the in-process listener driven with typed envelopes (no raw bytes there; instead every session input may be followed by an immediate hang-up); WebSocket listeners are not part of this tree", "client identity and credentials are fixed representatives; the Authenticate outcome is chosen independently of them", "deviation bound 0 for the lock-step exchange (bound 1, preemptions only, on the smallest tree in thorough); timers fire only when nothing else can run, i.e. no I/O stall is injected into the handshake"},
		Scenarios: scs,
	})
}
