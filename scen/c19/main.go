// C19 - the client recovers from any unrequested loss of its session. A real
// Client (with a message handler) talks to a real Server through a transport
// factory that builds the real TCP transport over a fresh virtual pipe per
// dial. After establishment one fault of each kind is injected at a moment
// placed by the bounded scheduler relative to an application send; then the
// application sends again and the (new) server session sends a message down.
package main

import (
	"context"
	"errors"
	"fmt"
	"strings"
	"time"

	"github.com/gorilla/websocket"
	lime "github.com/takenet/lime-go"
	"verif/gosim/harness"
	"verif/gosim/rt"
	"verif/scen/lib"
)

var faults = []string{"server-finish", "server-fail", "abrupt-close", "reset", "half-close", "garbage", "non-envelope", "oversized", "client-handler-error"}

type sendRec struct {
	id       string
	err      error
	dialsAt  int
	returned bool
}

type st struct {
	fault                  string
	dials                  int
	estIDs                 []string
	handled                []string
	sends                  []*sendRec
	tapped                 map[string]int // message id -> connection index on whose wire it appeared
	closeErr               error
	closeRet               bool
	snap                   bool
	concurrent             bool
	secondDown             bool
	outage                 bool
	noTap                  bool
	outageUntil            time.Duration
	refused                int    // dials refused during the outage
	noIDSent, noIDReceived string // a message without id sent through the Client: as sent / as the server's handler saw it
	noIDCaller             string // the caller's envelope after the send
	refusing               bool
	refuseUntil            time.Duration
	refusedSessions        int // sessions the server refused (unknown role) during the refusal window
}

func body(faultSet []string, useTLS, useWS bool) func(x *harness.X) {
	return func(x *harness.X) {
		lib.Reset()
		s := &st{tapped: map[string]int{}}
		x.Vars["st"] = s
		s.fault = faultSet[rt.Choose(len(faultSet))]
		s.concurrent = rt.Choose(2) == 1
		env := rt.Choose(3) // after the fault the server is reachable at once / unreachable for 2 s / refusing sessions for 2 s
		s.outage = env == 1
		s.refusing = env == 2
		// server
		var srvTCP *lime.TCPConfig
		if useTLS {
			srvTCP = &lime.TCPConfig{TLSConfig: lib.TLSServerConfig()}
			s.noTap = true // the wire carries TLS records: message ids are not visible to the tap
		}
		if useWS {
			s.noTap = true // client frames are masked: message ids are not visible to the tap
		}
		pl := lib.NewPipeListener(srvTCP, 64<<10, 4)
		var chans []*lime.ServerChannel
		cfg := lime.NewServerConfig()
		cfg.Node = lib.ServerNode
		cfg.SchemeOpts = []lime.AuthenticationScheme{lime.AuthenticationSchemeGuest}
		cfg.EncryptOpts = []lime.SessionEncryption{lime.SessionEncryptionNone}
		if useTLS {
			cfg.EncryptOpts = []lime.SessionEncryption{lime.SessionEncryptionTLS}
		}
		cfg.Backlog, cfg.ChannelBufferSize = 4, 1
		cfg.Authenticate, cfg.Register = lib.GuestOK, lib.RegisterSame
		if s.refusing {
			cfg.Authenticate = func(ctx context.Context, id lime.Identity, a lime.Authentication) (*lime.AuthenticationResult, error) {
				if s.refuseUntil > 0 && rt.Elapsed() < s.refuseUntil {
					s.refusedSessions++
					if s.refusedSessions <= 8 {
						x.Obs("server refuses the session")
					}
					return lime.UnknownAuthenticationResult(), nil
				}
				return lime.MemberAuthenticationResult(), nil
			}
		}
		cfg.Established = func(id string, c *lime.ServerChannel) {
			s.estIDs = append(s.estIDs, id)
			chans = append(chans, c)
			x.Obs("server: session %d established", len(s.estIDs))
		}
		smux := &lime.EnvelopeMux{}
		smux.MessageHandlerFunc(nil, func(ctx context.Context, m *lime.Message, snd lime.Sender) error {
			x.Obs("server got %s", m.ID)
			if lib.Str2(m.Metadata, "probe") == "noid" {
				s.noIDReceived = lib.Canon(m)
			}
			return nil
		})
		srv := lime.NewServer(cfg, smux, lime.NewBoundListener(pl, lib.PipeAddr("p")))
		go func() { _ = srv.ListenAndServe() }()
		// client
		cmux := &lime.EnvelopeMux{}
		cmux.MessageHandlerFunc(nil, func(ctx context.Context, m *lime.Message, snd lime.Sender) error {
			s.handled = append(s.handled, m.ID)
			x.Obs("client handler got %s", m.ID)
			if m.ID == "boom" {
				// an application handler that fails (its error happens to wrap a context error)
				return fmt.Errorf("handler gave up: %w", context.Canceled)
			}
			return nil
		})
		ccfg := lime.NewClientConfig()
		ccfg.Node = lime.Node{Identity: lime.Identity{Name: "alice", Domain: "cli.test"}, Instance: "i"}
		ccfg.ChannelBufferSize = 1
		ccfg.CompSelector, ccfg.EncryptSelector, ccfg.Authenticator = lime.NoneCompressionSelector, lime.NoneEncryptionSelector, lime.GuestAuthenticator
		if useTLS {
			ccfg.EncryptSelector = lime.TLSEncryptionSelector
		}
		ccfg.NewTransport = func(ctx context.Context) (lime.Transport, error) {
			if s.outage && s.outageUntil > 0 && rt.Elapsed() < s.outageUntil {
				s.refused++
				if s.refused <= 8 {
					x.Obs("client dial refused")
				}
				return nil, errors.New("connection refused")
			}
			n := s.dials
			s.dials++
			if useWS {
				t, _ := pl.DialWS()
				x.Obs("client dials (%d)", s.dials)
				return t, nil
			}
			conn := pl.Dial()
			conn.ResetAfterPeerClose = useTLS // writing to a vanished peer is a reset (the close_notify of the TLS layer fails)
			conn.Tap = func(b []byte) {
				// which message ids appear on this connection's wire
				str := string(b)
				for _, r := range s.sends {
					if strings.Contains(str, `"id":"`+r.id+`"`) {
						s.tapped[r.id] = n
					}
				}
			}
			x.Obs("client dials (%d)", s.dials)
			ctcp := &lime.TCPConfig{ReadLimit: 256}
			if useTLS {
				ctcp.TLSConfig = lib.TLSClientConfig()
			}
			return lime.NewTCPTransportFromConn(conn, ctcp, false), nil
		}
		client := lime.NewClient(ccfg, cmux)
		ctx, cancel := context.WithTimeout(context.Background(), 100*time.Second)
		defer cancel()
		appSend := func(id string) {
			r := &sendRec{id: id, dialsAt: s.dials}
			s.sends = append(s.sends, r)
			r.err = client.SendMessage(ctx, lib.Msg(id, "x"))
			r.returned = true
			x.Obs("app send %s err=%v", id, r.err != nil)
		}
		appSend("m1")
		rt.Quiesce()
		if len(chans) == 0 {
			x.Failf("setup", "first session was not established")
			rt.Stop()
		}
		rt.BeginExplore()
		inject := func() {
			sconn := pl.Servers[len(pl.Servers)-1]
			sc := chans[len(chans)-1]
			fctx, c2 := context.WithTimeout(context.Background(), 5*time.Second)
			defer c2()
			x.Obs("inject %s", s.fault)
			switch s.fault {
			case "server-finish":
				_ = sc.FinishSession(fctx)
			case "server-fail":
				_ = sc.FailSession(fctx, &lime.Reason{Code: 1, Description: "maintenance"})
			case "abrupt-close":
				_ = sconn.Close()
			case "reset":
				_ = sconn.Reset()
			case "half-close":
				_ = sconn.CloseWrite()
			case "client-handler-error":
				_ = sc.SendMessage(fctx, lib.Msg("boom", "the client's handler fails on this one"))
			case "garbage":
				if useWS {
					// a text frame that is no JSON at all
					_ = pl.WSServers[len(pl.WSServers)-1].WriteMessage(websocket.TextMessage, []byte("}{"))
				} else if useTLS {
					// a complete, bogus application-data record: fails authentication at once
					_, _ = sconn.Write([]byte{0x17, 3, 3, 0, 5, 'h', 'e', 'l', 'l', 'o'})
				} else {
					_, _ = sconn.Write([]byte("}{\n"))
				}
			case "non-envelope":
				if useWS {
					_ = pl.WSServers[len(pl.WSServers)-1].WriteMessage(websocket.TextMessage, []byte(`{"foo":1}`))
				} else {
					_, _ = sconn.Write([]byte(`{"foo":1}` + "\n"))
				}
			case "binary-frame":
				_ = pl.WSServers[len(pl.WSServers)-1].WriteMessage(websocket.BinaryMessage, []byte{0, 1, 2, 3})
			case "close-frame":
				_ = pl.WSServers[len(pl.WSServers)-1].WriteMessage(websocket.CloseMessage, websocket.FormatCloseMessage(websocket.CloseGoingAway, "bye"))
			case "raw-bytes":
				// bytes that are no WebSocket frame (reserved bits set)
				_, _ = sconn.Write([]byte{0xff, 0xff, 0xff, 0xff})
			case "oversized":
				_, _ = sconn.Write([]byte(`{"id":"big","type":"text/plain","content":"` + strings.Repeat("A", 700) + `"}` + "\n"))
			}
		}
		if s.refusing {
			s.refuseUntil = rt.Elapsed() + 2*time.Second // every new session is refused for 2s from now
		}
		if s.outage {
			s.outageUntil = rt.Elapsed() + 2*time.Second // the server is unreachable for 2s from now
		}
		if s.concurrent {
			done := make(chan struct{})
			go func() { inject(); close(done) }()
			appSend("m2")
			<-done
		} else {
			inject()
		}
		if s.outage {
			// an application call whose own deadline runs out while the client is backing off
			octx, oc := context.WithTimeout(context.Background(), 300*time.Millisecond)
			r := &sendRec{id: "mo", dialsAt: s.dials}
			s.sends = append(s.sends, r)
			r.err = client.SendMessage(octx, lib.Msg("mo", "x"))
			r.returned = true
			oc()
			x.Obs("app send mo (300ms deadline, during the outage) err=%v", r.err != nil)
		}
		// give the client time to notice (poll interval) and recover
		for i := 0; i < 3; i++ {
			rt.Quiesce()
			time.Sleep(6 * time.Second)
		}
		rt.Quiesce()
		appSend("m3")
		rt.Quiesce()
		{
			// a message without id ("fire and forget"): it must arrive as it was given
			nm := lib.Msg("", "no id")
			nm.SetMetadataKeyValue("probe", "noid")
			s.noIDSent = lib.Canon(nm)
			nctx, nc := context.WithTimeout(context.Background(), 5*time.Second)
			if client.SendMessage(nctx, nm) != nil {
				s.noIDSent = ""
			}
			nc()
			s.noIDCaller = lib.Canon(nm)
			rt.Quiesce()
		}
		// the current server session sends one message down
		if n := len(chans); n > 0 {
			dctx, c3 := context.WithTimeout(context.Background(), 5*time.Second)
			err := chans[n-1].SendMessage(dctx, lib.Msg("down", "hello"))
			c3()
			s.secondDown = err == nil
			x.Obs("server sends down on session %d err=%v", n, err != nil)
		}
		for i := 0; i < 2; i++ {
			rt.Quiesce()
			time.Sleep(6 * time.Second)
		}
		rt.Quiesce()
		rt.EndExplore()
		s.closeErr = client.Close()
		s.closeRet = true
		_ = srv.Close()
		for i := 0; i < 2; i++ {
			rt.Quiesce()
			time.Sleep(6 * time.Second)
		}
		rt.Quiesce()
		s.snap = true
		rt.Stop()
	}
}

func final(x *harness.X, res *rt.Result) {
	s, _ := x.Vars["st"].(*st)
	if s == nil {
		return
	}
	tag := s.fault
	if s.concurrent {
		tag += "/mid-send"
	} else {
		tag += "/idle"
	}
	if s.outage {
		tag += "/outage"
	}
	if s.refusing {
		tag += "/refusing"
	}
	hist := fmt.Sprintf("[%s; %s]", tag, strings.Join(x.Log(), " | "))
	if res.Crash != "" {
		x.Failf("panic:"+res.CrashSite, "%s %s", strings.SplitN(res.Crash, "\n", 2)[0], hist)
		return
	}
	if res.End == rt.EndSteps {
		spinner := ""
		for _, g := range res.Alive {
			if g.PendTag() != "Read" && g.PendTag() != "quiesce" && g.PendTag() != "Sleep" && g.PendTag() != "select" && g.PendTag() != "recv" {
				spinner += g.Name + "[" + g.PendTag() + "] "
			}
		}
		x.Failf("busy-loop:"+s.fault, "the execution burnt its whole step budget without the clock advancing: a goroutine is spinning (%s) %s", spinner, hist)
		return
	}
	if !s.snap {
		return
	}
	// retry pacing: the unchanged client makes about five attempts in the 2 s outage (quadratic
	// back-off from 100 ms); more than 30 attempts per second with nothing else to do is a busy loop
	if s.refusedSessions > 60 {
		x.Failf("retry-storm-refused:"+s.fault, "the client ran %d handshakes that the server refused within 2 s: it retries without pausing %s", s.refusedSessions, hist)
	}
	if s.refused > 60 {
		x.Failf("retry-storm:"+s.fault, "the client dialled %d times during the 2 s outage: it retries without pausing %s", s.refused, hist)
	}
	// a fresh session was established and is usable
	// (a failing application handler costs no session: the first one simply goes on)
	if len(s.estIDs) < 2 && s.fault != "client-handler-error" {
		x.Failf("no-fresh-session:"+s.fault, "after the fault the client never established a fresh session (dials=%d, sessions=%d) %s", s.dials, len(s.estIDs), hist)
	}
	if s.noIDSent != "" && (s.noIDReceived != s.noIDSent || s.noIDCaller != s.noIDSent) {
		x.Failf("message-altered-by-the-client", "a message without id was sent as %s; the server's handler saw %s and the caller's envelope is now %s %s", s.noIDSent, s.noIDReceived, s.noIDCaller, hist)
	}
	if !contains(s.handled, "down") {
		x.Failf("deaf-after-fault:"+s.fault, "the message sent by the server after recovery never reached the client's handler %s", hist)
	}
	// a send reports success only if the envelope was written to an established session
	for _, r := range s.sends {
		if r.returned && r.err == nil && !s.noTap {
			if _, ok := s.tapped[r.id]; !ok {
				x.Failf("send-success-not-written:"+s.fault, "SendMessage(%s) returned nil but the message never appeared on any connection %s", r.id, hist)
			}
		}
	}
	last := s.sends[len(s.sends)-1]
	if last.returned && last.err == nil {
		if conn, ok := s.tapped[last.id]; ok && conn == 0 && s.fault != "half-close" && s.fault != "client-handler-error" {
			x.Failf("send-into-dead-session:"+s.fault, "SendMessage(%s) after the fault reported success but was written to the first, dead connection %s", last.id, hist)
		}
	}
	if !s.closeRet {
		x.Failf("client-close-blocked", "Client.Close did not return %s", hist)
	}
	for _, g := range res.Alive {
		if g.Name == "main" {
			continue
		}
		x.Failf("goroutine-left:"+g.Name+"["+g.PendTag()+"]", "goroutine %s (%s) left after Client.Close and Server.Close %s", g.Name, g.PendTag(), hist)
	}
}

func contains(l []string, s string) bool {
	for _, x := range l {
		if x == s {
			return true
		}
	}
	return false
}

func main() {
	opt := rt.Options{NoExplore: true, Horizon: 400 * time.Second, MaxSteps: 60000, SpinLimit: 8000, BoundAll: true, NoTimerDeviation: true}
	mk := func(name string, fs []string, q, t int) harness.Scenario {
		return harness.Scenario{Name: name, Opt: opt, Quick: q, Thorough: t, Prune: false, Body: body(fs, false, false), Final: final}
	}
	harness.Main(harness.Check{
		Property: "C19",
		Level:    "model_checking",
		Rule:     "fault kind {a client handler returning an error, server finish, server fail, abrupt close, connection reset, half-close, undecodable bytes, non-envelope JSON, envelope above twice the read limit} x moment {idle, concurrent with an application send} x {server reachable at once, dials refused for 2s during which an application send with a 300ms deadline times out, new sessions refused (unknown role) for 2s} as data choices, the injection placed by the bounded scheduler (delay bounding); then one more application send and one server-to-client message on the newest session; real Client and Server over the real TCP transport on per-dial virtual pipes; distinct outcome = distinct observation log",
		Assume:   []string{"state pruning off (Client.channel is read outside its mutex)", "in-process clients are not explored here; the ws/faults scenario runs the client over WebSocket connections (gorilla, real opening handshake per dial over a virtual pipe; faults there also include a binary frame, a close frame and bytes that are no frame), where client frames are masked and the written-to-a-live-session clause is not evaluated; the tls/faults scenario runs the same over real TLS (negotiated per dial), where the wire tap cannot see message ids, so the written-to-a-live-session clause is not evaluated there; it runs the default schedule only (crypto/tls holds native mutexes across its I/O, so preempting inside it could block the whole simulation natively) with writes to a vanished peer failing as a reset", "a spinning goroutine is recognised by more than 8000 visible operations being executed while the virtual clock stands still (a whole handshake takes about 1500)"},
		Scenarios: []harness.Scenario{
			mk("all-faults", faults, 1, 2),
			{Name: "tls/faults", Opt: opt, Quick: 0, Thorough: 0, Prune: false, Body: body([]string{"server-finish", "server-fail", "abrupt-close", "reset", "garbage"}, true, false), Final: final},
			{Name: "ws/faults", Opt: opt, Quick: 1, Thorough: 2, Prune: false, Body: body([]string{"server-finish", "server-fail", "abrupt-close", "reset", "half-close", "garbage", "non-envelope", "binary-frame", "close-frame", "raw-bytes"}, false, true), Final: final},
		},
	})
}
