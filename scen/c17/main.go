// C17 - concurrent sessions are isolated and handlers see their own session.
// One real Server (pipe listener with the real TCP transport + in-process
// listener) serves 2-3 real client channels with distinct identities; Register
// assigns harness-chosen addresses; handlers record the session context and
// reply through the Sender they were given; all schedules within the deviation
// bound, handshakes included.
package main

import (
	"context"
	"strings"
	"time"

	lime "github.com/takenet/lime-go"
	"verif/gosim/harness"
	"verif/gosim/rt"
	"verif/scen/lib"
)

type inv struct {
	canon  string
	envID  string
	sid    string
	remote string
	local  string
	okCtx  bool
}

type cli struct {
	name     string
	sid      string
	local    string
	remote   string
	got      []string // ids of envelopes received
	estOK    bool
	sentOK   []string
	finished bool
}

type st struct {
	invs    []inv
	clients []*cli
	reg     map[string]string // client name -> assigned node
	estCb   map[string]string // sid -> remote node at callback time
	snap    bool
}

func assigned(name string) lime.Node {
	return lime.Node{Identity: lime.Identity{Name: name, Domain: "reg.test"}, Instance: "r-" + name}
}

func body(n int, mixed, intruder bool, wsIdx int) func(x *harness.X) {
	return func(x *harness.X) {
		lib.Reset()
		s := &st{reg: map[string]string{}, estCb: map[string]string{}}
		x.Vars["st"] = s
		rec := func(ctx context.Context, id string, env interface{}) {
			sid, ok1 := lime.ContextSessionID(ctx)
			rn, ok2 := lime.ContextSessionRemoteNode(ctx)
			ln, ok3 := lime.ContextSessionLocalNode(ctx)
			s.invs = append(s.invs, inv{canon: lib.Canon(env), envID: id, sid: sid, remote: rn.String(), local: ln.String(), okCtx: ok1 && ok2 && ok3})
			x.Obs("handler %s sid-known=%v remote=%s", id, ok1, rn.String())
		}
		mux := &lime.EnvelopeMux{}
		mux.MessageHandlerFunc(nil, func(ctx context.Context, m *lime.Message, snd lime.Sender) error {
			rec(ctx, m.ID, m)
			return snd.SendNotification(ctx, lib.Not(m.ID, lime.NotificationEventReceived))
		})
		mux.RequestCommandHandlerFunc(nil, func(ctx context.Context, c *lime.RequestCommand, snd lime.Sender) error {
			rec(ctx, c.ID, c)
			return snd.SendResponseCommand(ctx, lib.Resp(c.ID))
		})
		mux.NotificationHandlerFunc(nil, func(ctx context.Context, n *lime.Notification) error {
			rec(ctx, n.ID, n)
			return nil
		})
		mux.ResponseCommandHandlerFunc(nil, func(ctx context.Context, c *lime.ResponseCommand, snd lime.Sender) error {
			rec(ctx, c.ID, c)
			return nil
		})
		cfg := lime.NewServerConfig()
		cfg.Node = lib.ServerNode
		cfg.SchemeOpts = []lime.AuthenticationScheme{lime.AuthenticationSchemeGuest}
		cfg.EncryptOpts = []lime.SessionEncryption{lime.SessionEncryptionNone}
		cfg.Backlog, cfg.ChannelBufferSize = 2, 1
		cfg.Authenticate = lib.GuestOK
		cfg.Register = func(ctx context.Context, cand lime.Node, c *lime.ServerChannel) (lime.Node, error) {
			nd := assigned(cand.Name)
			s.reg[cand.Name] = nd.String()
			return nd, nil
		}
		cfg.Established = func(id string, c *lime.ServerChannel) {
			s.estCb[id] = c.RemoteNode().String()
			x.Obs("established-callback remote=%s", c.RemoteNode().String())
		}
		pl := lib.NewPipeListener(nil, 64<<10, 3)
		inaddr := lime.InProcessAddr("c17")
		ls := []lime.BoundListener{lime.NewBoundListener(pl, lib.PipeAddr("p"))}
		if mixed {
			ls = append(ls, lime.NewBoundListener(lime.NewInProcessTransportListener(inaddr), inaddr))
		}
		srv := lime.NewServer(cfg, mux, ls...)
		go func() { _ = srv.ListenAndServe() }()
		rt.BeginExplore()
		if intruder {
			// a third party whose connection carries an object that fails typed decoding after
			// several of its members were read; it never gets a session
			go func() {
				conn := pl.Dial()
				_, _ = conn.Write([]byte(`{"id":"evil","to":"victim@reg.test/v","pp":"evil@reg.test/e","metadata":{"injected":"yes"},"event":"bogus"}` + "\n"))
				x.Obs("intruder wrote its object")
			}()
		}
		names := []string{"alice", "bob", "carol"}[:n]
		for i, name := range names {
			c := &cli{name: name}
			s.clients = append(s.clients, c)
			useInproc := mixed && i == 1
			useWS := i == wsIdx
			go func() {
				var tr lime.Transport
				if useInproc {
					var ok bool
					if tr, ok = lib.TryDialInProc(inaddr, 1); !ok {
						return
					}
				} else if useWS {
					tr, _ = pl.DialWS()
				} else {
					tr = lime.NewTCPTransportFromConn(pl.Dial(), nil, false)
				}
				cc := lime.NewClientChannel(tr, 2)
				ctx, cancel := context.WithTimeout(context.Background(), 90*time.Second)
				defer cancel()
				ses, err := cc.EstablishSession(ctx, lime.NoneCompressionSelector, lime.NoneEncryptionSelector,
					lime.Identity{Name: name, Domain: "cli.test"}, lime.GuestAuthenticator, "home")
				if err != nil || ses.State != lime.SessionStateEstablished {
					x.Obs("%s not established", name)
					return
				}
				c.estOK = true
				c.sid, c.local, c.remote = cc.ID(), cc.LocalNode().String(), cc.RemoteNode().String()
				// consume replies
				done := make(chan struct{})
				go func() {
					defer close(done)
					for len(c.got) < 2 {
						select {
						case nt, ok := <-cc.NotChan():
							if !ok {
								return
							}
							c.got = append(c.got, nt.ID)
						case r, ok := <-cc.RespCmdChan():
							if !ok {
								return
							}
							c.got = append(c.got, r.ID)
						case <-ctx.Done():
							return
						}
					}
				}()
				if cc.SendMessage(ctx, lib.Msg(name+"-m", "hi")) == nil {
					c.sentOK = append(c.sentOK, name+"-m")
				}
				if cc.SendRequestCommand(ctx, lib.Req(name+"-q", "/x")) == nil {
					c.sentOK = append(c.sentOK, name+"-q")
				}
				<-done
				c.finished = true
				x.Obs("%s got %v", name, c.got)
			}()
		}
		for i := 0; i < 2; i++ {
			rt.Quiesce()
			time.Sleep(6 * time.Second)
		}
		rt.Quiesce()
		rt.EndExplore()
		s.snap = true
		rt.Stop()
	}
}

func final(x *harness.X, res *rt.Result) {
	s, _ := x.Vars["st"].(*st)
	if s == nil {
		return
	}
	hist := "[" + strings.Join(x.Log(), " | ") + "]"
	if res.Crash != "" {
		x.Failf("panic:"+res.CrashSite, "%s %s", strings.SplitN(res.Crash, "\n", 2)[0], hist)
		return
	}
	if !s.snap {
		return
	}
	byName := map[string]*cli{}
	sids := map[string]string{}
	for _, c := range s.clients {
		byName[c.name] = c
		if !c.estOK {
			x.Failf("not-established", "%s could not establish its session %s", c.name, hist)
			continue
		}
		if o, dup := sids[c.sid]; dup {
			x.Failf("session-id-shared", "%s and %s were announced the same session id %q %s", o, c.name, c.sid, hist)
		}
		sids[c.sid] = c.name
		if c.local != s.reg[c.name] {
			x.Failf("announced-node-mismatch", "%s was announced node %q but Register assigned %q %s", c.name, c.local, s.reg[c.name], hist)
		}
		if cb, ok := s.estCb[c.sid]; !ok || cb != s.reg[c.name] {
			x.Failf("established-callback-mismatch", "Established callback for session %s of %s saw remote node %q (known=%v), Register assigned %q %s", c.sid, c.name, cb, ok, s.reg[c.name], hist)
		}
	}
	for _, v := range s.invs {
		owner := strings.SplitN(v.envID, "-", 2)[0]
		c := byName[owner]
		if c == nil || !c.estOK {
			continue
		}
		if !v.okCtx {
			x.Failf("context-missing", "handler for %s ran without session values in its context %s", v.envID, hist)
		}
		if v.sid != c.sid {
			x.Failf("context-session-id", "handler for %s saw session id %q, its client was announced %q %s", v.envID, v.sid, c.sid, hist)
		}
		if v.remote != s.reg[owner] {
			x.Failf("context-remote-node", "handler for %s saw remote node %q, Register assigned %q to %s %s", v.envID, v.remote, s.reg[owner], owner, hist)
		}
		want := lib.Canon(lib.Msg(v.envID, "hi"))
		if strings.HasSuffix(v.envID, "-q") {
			want = lib.Canon(lib.Req(v.envID, "/x"))
		}
		if v.canon != want {
			x.Failf("envelope-altered", "handler for %s of %s received %s, the client sent %s %s", v.envID, owner, v.canon, want, hist)
		}
		if v.local != lib.ServerNode.String() {
			x.Failf("context-local-node", "handler for %s saw local node %q, server node is %q %s", v.envID, v.local, lib.ServerNode, hist)
		}
	}
	for _, c := range s.clients {
		if !c.estOK {
			continue
		}
		for _, g := range c.got {
			if !strings.HasPrefix(g, c.name+"-") {
				x.Failf("reply-crossed", "%s received the reply %q that belongs to another session %s", c.name, g, hist)
			}
		}
		if len(c.sentOK) == 2 && (!c.finished || len(c.got) != 2) {
			x.Failf("reply-missing", "%s sent %v but received only %v %s", c.name, c.sentOK, c.got, hist)
		}
	}
}

func main() {
	opt := rt.Options{NoExplore: true, Horizon: 300 * time.Second, MaxSteps: 100000, BoundAll: true, NoTimerDeviation: true}
	mk := func(name string, n int, mixed bool, q, t int) harness.Scenario {
		return harness.Scenario{Name: name, Opt: opt, Quick: q, Thorough: t, Prune: false, Body: body(n, mixed, strings.Contains(name, "intruder"), map[bool]int{true: n - 1, false: -1}[strings.Contains(name, "+ws")]), Final: final}
	}
	harness.Main(harness.Check{
		Property: "C17",
		Level:    "model_checking",
		Rule:     "2 (thorough also 3) concurrent clients with distinct identities, each sending a message and a request command that the server's handlers answer through their Sender; Register assigns a distinct address per identity; one scenario adds a third connection that never gets a session and carries an object failing typed decoding; handlers compare the envelope they receive with what the owning client sent; transports: TCP over virtual pipes, optionally mixed with the in-process listener and with WebSocket connections (gorilla, real opening handshake over a virtual pipe) on the same server; all schedules within the deviation bound (delay bounding) from the first dial, handshakes included; distinct outcome = distinct observation log",
		Assume:   []string{"state pruning off", "the WebSocket listener's HTTP server is not part of the exploration: upgraded connections reach the server through the pipe listener as real websocketTransports (verif hook)"},
		Scenarios: []harness.Scenario{
			mk("2clients/pipe", 2, false, 1, 2),
			mk("2clients/pipe+inproc", 2, true, 1, 1),
			mk("2clients+intruder/pipe", 2, false, 1, 2),
			mk("2clients/pipe+ws", 2, false, 1, 2),
			mk("3clients/pipe+inproc+ws", 3, true, -1, 1),
			mk("3clients/pipe+inproc", 3, true, -1, 1),
		},
	})
}
