package lib

import (
	"bytes"
	"context"
	"crypto/ed25519"
	"crypto/tls"
	"crypto/x509"
	"crypto/x509/pkix"
	"encoding/json"
	"errors"
	"io"
	"math/big"
	"net"
	"sync"
	"time"

	"github.com/gorilla/websocket"
	lime "github.com/takenet/lime-go"
	"verif/gosim/rt"
)

// PipeListener is a TransportListener that hands out server-role TCP
// transports built over virtual pipes (the real tcpTransport over rt.Conn).
type PipeListener struct {
	ch         chan lime.Transport
	done       chan struct{}
	once       sync.Once
	Cfg        *lime.TCPConfig
	Cap        int
	Servers    []*rt.Conn // server ends, in dial order
	Transports []lime.Transport
	Clients    []*rt.Conn
	Base       []int64                 // bytes the server end had read before it was queued (WebSocket: the opening handshake)
	WSServers  []*websocket.Conn       // server ends of the WebSocket connections, in DialWS order
	Accepted   map[lime.Transport]bool // transports the server took over through Accept
	CloseErr   error                   // returned by Close (which closes all the same)
}

// WasAccepted tells whether the server end of connection i was handed to the server by Accept
// (from then on the library owns it; before, it only sits in this listener's queue).
func (l *PipeListener) WasAccepted(i int) bool {
	return i < len(l.Transports) && l.Accepted[l.Transports[i]]
}

func NewPipeListener(cfg *lime.TCPConfig, capacity, backlog int) *PipeListener {
	return &PipeListener{ch: make(chan lime.Transport, backlog), done: make(chan struct{}), Cfg: cfg, Cap: capacity}
}

func (l *PipeListener) Listen(ctx context.Context, addr net.Addr) error { return nil }

func (l *PipeListener) Accept(ctx context.Context) (lime.Transport, error) {
	select {
	case <-ctx.Done():
		return nil, ctx.Err()
	case <-l.done:
		return nil, errors.New("pipe listener closed")
	case t := <-l.ch:
		if l.Accepted == nil {
			l.Accepted = map[lime.Transport]bool{}
		}
		l.Accepted[t] = true
		return t, nil
	}
}

func (l *PipeListener) Close() error {
	l.once.Do(func() { close(l.done) })
	return l.CloseErr
}

// IsClosed tells whether Close was called.
func (l *PipeListener) IsClosed() bool {
	select {
	case <-l.done:
		return true
	default:
		return false
	}
}

// Dial creates a fresh virtual connection, queues its server end for Accept
// and returns the client end.
func (l *PipeListener) Dial() *rt.Conn {
	c, s := rt.Pipe(l.Cap)
	c.Name, s.Name = "client", "server"
	l.Servers = append(l.Servers, s)
	l.Clients = append(l.Clients, c)
	l.Base = append(l.Base, 0)
	t := lime.NewTCPTransportFromConn(s, l.Cfg, true)
	l.Transports = append(l.Transports, t)
	l.ch <- t
	return c
}

// DialWS is Dial for the WebSocket transport: a real opening handshake over a fresh
// virtual connection; the server-side transport is queued for Accept, the client-side
// transport and its raw connection are returned.
func (l *PipeListener) DialWS() (lime.Transport, *rt.Conn) {
	cws, sws, c, s := WSConns(l.Cap)
	l.Servers = append(l.Servers, s)
	l.Clients = append(l.Clients, c)
	l.Base = append(l.Base, s.BytesRead)
	l.WSServers = append(l.WSServers, sws)
	t := lime.NewWebsocketTransportFromConn(sws, false)
	l.Transports = append(l.Transports, t)
	l.ch <- t
	return lime.NewWebsocketTransportFromConn(cws, false), c
}

// DialKind dials a client transport of the given kind ("tcp" or "ws") through the listener.
func (l *PipeListener) DialKind(kind string) (lime.Transport, *rt.Conn) {
	if kind == "ws" {
		return l.DialWS()
	}
	c := l.Dial()
	return lime.NewTCPTransportFromConn(c, nil, false), c
}

type PipeAddr string

func (PipeAddr) Network() string  { return "pipe" }
func (a PipeAddr) String() string { return string(a) }

// ---- TLS material (deterministic, generated once per process) ----------------

var tlsCert tls.Certificate

func init() {
	seed := bytes.Repeat([]byte{0x42}, ed25519.SeedSize)
	key := ed25519.NewKeyFromSeed(seed)
	tmpl := &x509.Certificate{
		SerialNumber: big.NewInt(1),
		Subject:      pkix.Name{CommonName: "srv.test"},
		DNSNames:     []string{"srv.test"},
		NotBefore:    time.Date(2000, 1, 1, 0, 0, 0, 0, time.UTC),
		NotAfter:     time.Date(2100, 1, 1, 0, 0, 0, 0, time.UTC),
		KeyUsage:     x509.KeyUsageDigitalSignature,
		ExtKeyUsage:  []x509.ExtKeyUsage{x509.ExtKeyUsageServerAuth},
	}
	der, err := x509.CreateCertificate(zeroReader{}, tmpl, tmpl, key.Public(), key)
	if err != nil {
		panic(err)
	}
	tlsCert = tls.Certificate{Certificate: [][]byte{der}, PrivateKey: key}
}

type zeroReader struct{}

func (zeroReader) Read(p []byte) (int, error) {
	for i := range p {
		p[i] = 0
	}
	return len(p), nil
}

func fixedTime() time.Time { return time.Date(2030, 1, 1, 0, 0, 0, 0, time.UTC) }

func TLSServerConfig() *tls.Config {
	return &tls.Config{Certificates: []tls.Certificate{tlsCert}, MinVersion: tls.VersionTLS13, SessionTicketsDisabled: true, Time: fixedTime}
}

func TLSClientConfig() *tls.Config {
	return &tls.Config{InsecureSkipVerify: true, MinVersion: tls.VersionTLS13, ServerName: "srv.test", Time: fixedTime}
}

// ---- raw scripted peer ---------------------------------------------------------

// RawPeer talks raw bytes/JSON over a connection, for scripted clients and
// servers. It never uses json.Decoder on the conn (a read timeout would poison
// it); it frames complete JSON values out of its own buffer.
type RawPeer struct {
	Raw  *rt.Conn // the underlying virtual connection
	Conn net.Conn // Raw, or a TLS layer over it
	buf  []byte
	EOF  bool
	Err  error // last hard read error (not timeout, not EOF)
	// Block makes reads wait for the other side for as long as it takes
	// instead of giving up once the rest of the system is quiescent.
	Block bool
	WS    bool // Conn is a WebSocket message adaptor, not a TLS layer
}

// TLS tells whether the peer has upgraded its side to TLS.
func (p *RawPeer) TLS() bool { return !p.WS && p.Conn != net.Conn(p.Raw) }

func NewRawPeer(c *rt.Conn) *RawPeer { return &RawPeer{Raw: c, Conn: c} }

// Send writes bytes; the error is returned (a peer that went away).
func (p *RawPeer) Send(b []byte) error {
	// no write deadline: a harness timer must never be what makes an input vanish
	_, err := p.Conn.Write(b)
	return err
}

// SendJSON marshals v and writes it.
func (p *RawPeer) SendJSON(v interface{}) error {
	b, err := json.Marshal(v)
	if err != nil {
		panic(err)
	}
	return p.Send(b)
}

// next returns the next complete JSON value. When nothing is buffered it waits
// until the rest of the system is quiescent (rt.Quiesce) and gives up if the
// connection is still silent then: "the other side is blocked waiting for us
// (or gone)". wait only bounds a partial TLS record / partial value.
// ok=false: quiet, EOF or error (see p.EOF, p.Err).
func (p *RawPeer) next(wait time.Duration) (json.RawMessage, bool) {
	for {
		if len(bytes.TrimSpace(p.buf)) > 0 {
			dec := json.NewDecoder(bytes.NewReader(p.buf))
			var raw json.RawMessage
			err := dec.Decode(&raw)
			if err == nil {
				p.buf = p.buf[dec.InputOffset():]
				return raw, true
			}
			if err != io.EOF && err != io.ErrUnexpectedEOF {
				// not JSON at all (e.g. a TLS record seen by a cleartext reader)
				p.Err = err
				return nil, false
			}
		}
		if p.EOF || p.Err != nil {
			return nil, false
		}
		if !p.Raw.Readable() && !p.Block {
			rt.Quiesce()
			if !p.Raw.Readable() {
				return nil, false
			}
		}
		if p.Block {
			_ = p.Conn.SetReadDeadline(time.Time{})
		} else {
			_ = p.Conn.SetReadDeadline(time.Now().Add(wait))
		}
		tmp := make([]byte, 16384)
		n, err := p.Conn.Read(tmp)
		p.buf = append(p.buf, tmp[:n]...)
		if err != nil {
			var ne net.Error
			switch {
			case errors.Is(err, io.EOF):
				p.EOF = true
			case errors.As(err, &ne) && ne.Timeout():
				return nil, false
			default:
				p.Err = err
			}
		}
	}
}

// ReadQuiet returns every JSON value that arrives until the connection has
// been quiet for `wait` of virtual time (i.e. the other side is blocked), or
// EOF/error.
func (p *RawPeer) ReadQuiet(wait time.Duration) []map[string]interface{} {
	var out []map[string]interface{}
	for {
		raw, ok := p.next(wait)
		if !ok {
			return out
		}
		var m map[string]interface{}
		if err := json.Unmarshal(raw, &m); err != nil {
			m = map[string]interface{}{"!raw": string(raw)}
		}
		out = append(out, m)
	}
}

// ReadOne waits up to `wait` for one JSON value.
func (p *RawPeer) ReadOne(wait time.Duration) (map[string]interface{}, bool) {
	raw, ok := p.next(wait)
	if !ok {
		return nil, false
	}
	var m map[string]interface{}
	if err := json.Unmarshal(raw, &m); err != nil {
		m = map[string]interface{}{"!raw": string(raw)}
	}
	return m, true
}

// WaitEOF waits for the other side to close: up to `wait` of virtual time, in
// rounds of (drain, quiesce, sleep 5s) so that servers which only notice
// things at their I/O poll interval get their chance. Anything else that
// arrives is returned.
func (p *RawPeer) WaitEOF(wait time.Duration) (bool, []map[string]interface{}) {
	var extra []map[string]interface{}
	for spent := time.Duration(0); ; spent += 5 * time.Second {
		extra = append(extra, p.ReadQuiet(30*time.Second)...)
		if p.EOF || p.Err != nil || spent >= wait {
			break
		}
		time.Sleep(5 * time.Second)
	}
	return p.EOF || p.Err != nil, extra
}

// StartTLSClient upgrades the peer's connection with a real TLS client handshake.
func (p *RawPeer) StartTLSClient() error {
	tc := tls.Client(p.Raw, TLSClientConfig())
	_ = tc.SetDeadline(time.Now().Add(20 * time.Second))
	if err := tc.Handshake(); err != nil {
		return err
	}
	_ = tc.SetDeadline(time.Time{})
	p.Conn = tc
	p.buf = nil
	return nil
}

// StartTLSServer upgrades with a real TLS server handshake.
func (p *RawPeer) StartTLSServer() error {
	tc := tls.Server(p.Raw, TLSServerConfig())
	_ = tc.SetDeadline(time.Now().Add(20 * time.Second))
	if err := tc.Handshake(); err != nil {
		return err
	}
	_ = tc.SetDeadline(time.Time{})
	p.Conn = tc
	p.buf = nil
	return nil
}

// IsTLSRecord classifies a chunk seen on the wire tap.
func IsTLSRecord(b []byte) bool {
	return len(b) >= 3 && b[0] >= 0x14 && b[0] <= 0x17 && b[1] == 0x03
}

// Str gets a string field of a decoded envelope.
func Str(m map[string]interface{}, k string) string {
	s, _ := m[k].(string)
	return s
}

// TLSServerConfigByCallback is a server configuration that supplies its certificate only
// through GetConfigForClient: no Certificates, no GetCertificate.
func TLSServerConfigByCallback() *tls.Config {
	return &tls.Config{MinVersion: tls.VersionTLS13, SessionTicketsDisabled: true, Time: fixedTime,
		GetConfigForClient: func(*tls.ClientHelloInfo) (*tls.Config, error) { return TLSServerConfig(), nil }}
}
