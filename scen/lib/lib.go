// Package lib holds helpers shared by the gosim scenarios. It is plain Go and
// is rewritten together with the scenarios.
package lib

import (
	"context"
	"encoding/json"
	"fmt"
	"io"
	"log"
	"time"

	"github.com/google/uuid"
	lime "github.com/takenet/lime-go"
	"verif/gosim/rt"
)

var ServerNode = lime.Node{Identity: lime.Identity{Name: "postmaster", Domain: "srv.test"}, Instance: "s1"}

// detRand is a deterministic byte stream for uuid generation.
type detRand struct{ n uint64 }

func (d *detRand) Read(p []byte) (int, error) {
	for i := range p {
		d.n = d.n*6364136223846793005 + 1442695040888963407
		p[i] = byte(d.n >> 33)
	}
	return len(p), nil
}

// Reset puts process-global state into a known state; every scenario calls
// it first thing in its body (or as Scenario.Reset).
func Reset() {
	log.SetOutput(io.Discard)
	uuid.SetRand(&detRand{n: 42})
	lime.ResetInProcessListenersForVerif()
}

// Canon renders an envelope canonically (its JSON encoding).
func Canon(e interface{}) string {
	b, err := json.Marshal(e)
	if err != nil {
		return "!marshal:" + err.Error()
	}
	return string(b)
}

func Msg(id, text string) *lime.Message {
	m := &lime.Message{}
	m.ID = id
	m.SetContent(lime.TextDocument(text))
	return m
}

func Not(id string, ev lime.NotificationEvent) *lime.Notification {
	n := &lime.Notification{Event: ev}
	n.ID = id
	return n
}

func Req(id string, uri string) *lime.RequestCommand {
	c := &lime.RequestCommand{}
	c.ID = id
	c.Method = lime.CommandMethodGet
	c.SetURIString(uri)
	return c
}

func Resp(id string) *lime.ResponseCommand {
	c := &lime.ResponseCommand{}
	c.ID = id
	c.Method = lime.CommandMethodGet
	c.Status = lime.CommandStatusSuccess
	return c
}

var GuestOK = func(context.Context, lime.Identity, lime.Authentication) (*lime.AuthenticationResult, error) {
	return lime.MemberAuthenticationResult(), nil
}

var RegisterSame = func(_ context.Context, n lime.Node, _ *lime.ServerChannel) (lime.Node, error) { return n, nil }

// ServerEstablishGuest runs the server side of a guest handshake.
func ServerEstablishGuest(ctx context.Context, sc *lime.ServerChannel) error {
	return sc.EstablishSession(ctx,
		[]lime.SessionCompression{lime.SessionCompressionNone},
		[]lime.SessionEncryption{lime.SessionEncryptionNone},
		[]lime.AuthenticationScheme{lime.AuthenticationSchemeGuest},
		GuestOK, RegisterSame)
}

// ClientEstablishGuest runs the client side of a guest handshake.
func ClientEstablishGuest(ctx context.Context, cc *lime.ClientChannel, name string) (*lime.Session, error) {
	return cc.EstablishSession(ctx, lime.NoneCompressionSelector, lime.NoneEncryptionSelector,
		lime.Identity{Name: name, Domain: "cli.test"}, lime.GuestAuthenticator, "inst")
}

// Transports returns a connected (client, server) transport pair: kind is
// "inproc" (buf = transport queue size), "tcp" or "ws" (buf = pipe capacity in bytes).
// For tcp the two virtual conns are returned as well.
func Transports(kind string, buf int, cfg *lime.TCPConfig) (ct, st lime.Transport, cconn, sconn *rt.Conn) {
	switch kind {
	case "inproc":
		addr := lime.InProcessAddr("pair")
		l := lime.NewInProcessTransportListener(addr)
		if err := l.Listen(context.Background(), addr); err != nil {
			panic(err)
		}
		var err error
		ct, err = lime.DialInProcess(addr, buf)
		if err != nil {
			panic(err)
		}
		st, err = l.Accept(context.Background())
		if err != nil {
			panic(err)
		}
		_ = l.Close()
		return ct, st, nil, nil
	case "tcp":
		a, b := rt.Pipe(buf)
		a.Name, b.Name = "client", "server"
		return lime.NewTCPTransportFromConn(a, cfg, false), lime.NewTCPTransportFromConn(b, cfg, true), a, b
	}
	if kind == "ws" {
		return WSTransports(buf)
	}
	panic("unknown transport kind " + kind)
}

// EstablishedPair brings a client and a server channel to the established
// state over the given transports (guest authentication).
func EstablishedPair(ct, st lime.Transport, chanBuf int) (*lime.ClientChannel, *lime.ServerChannel, error) {
	sc := lime.NewServerChannel(st, chanBuf, ServerNode, "sid-1")
	cc := lime.NewClientChannel(ct, chanBuf)
	ctx, cancel := context.WithTimeout(context.Background(), 30*time.Second)
	defer cancel()
	done := make(chan error, 1)
	go func() { done <- ServerEstablishGuest(ctx, sc) }()
	ses, err := ClientEstablishGuest(ctx, cc, "alice")
	if err != nil {
		return nil, nil, fmt.Errorf("client establish: %w", err)
	}
	if err := <-done; err != nil {
		return nil, nil, fmt.Errorf("server establish: %w", err)
	}
	if ses.State != lime.SessionStateEstablished {
		return nil, nil, fmt.Errorf("client session state %v", ses.State)
	}
	return cc, sc, nil
}

// DialInProcRetry dials an in-process listener, waiting (on the virtual
// clock) until it is registered.
func DialInProcRetry(addr lime.InProcessAddr, buf int) lime.Transport {
	t, ok := TryDialInProc(addr, buf)
	if !ok {
		panic("in-process listener never came up")
	}
	return t
}

// TryDialInProc is DialInProcRetry that reports failure instead of panicking.
func TryDialInProc(addr lime.InProcessAddr, buf int) (lime.Transport, bool) {
	for i := 0; i < 100; i++ {
		t, err := lime.DialInProcess(addr, buf)
		if err == nil {
			return t, true
		}
		time.Sleep(time.Millisecond)
	}
	return nil, false
}

// Str2 is a map lookup that tolerates a nil map.
func Str2(m map[string]string, k string) string {
	if m == nil {
		return ""
	}
	return m[k]
}
