package lib

import (
	"bufio"
	"fmt"
	"net"
	"net/http"
	"net/url"

	"github.com/gorilla/websocket"
	lime "github.com/takenet/lime-go"
	"verif/gosim/rt"
)

// hijackWriter is the http.ResponseWriter the WebSocket upgrader needs: it
// only ever hijacks the connection.
type hijackWriter struct {
	conn net.Conn
	brw  *bufio.ReadWriter
	hdr  http.Header
}

func (h *hijackWriter) Header() http.Header         { return h.hdr }
func (h *hijackWriter) Write(b []byte) (int, error) { return h.conn.Write(b) }
func (h *hijackWriter) WriteHeader(int)             {}
func (h *hijackWriter) Hijack() (net.Conn, *bufio.ReadWriter, error) {
	return h.conn, h.brw, nil
}

// WSConns performs a real WebSocket opening handshake (gorilla client against the
// upgrader the library's listener configures: subprotocol "lime") over a virtual pipe
// of the given capacity and returns the two upgraded connections.
func WSConns(capacity int) (cws, sws *websocket.Conn, cconn, sconn *rt.Conn) {
	cconn, sconn = rt.Pipe(capacity)
	cconn.Name, sconn.Name = "client", "server"
	type res struct {
		c   *websocket.Conn
		err error
	}
	srvDone := make(chan res, 1)
	go func() {
		br := bufio.NewReader(sconn)
		req, err := http.ReadRequest(br)
		if err != nil {
			srvDone <- res{nil, err}
			return
		}
		up := &websocket.Upgrader{Subprotocols: []string{"lime"}}
		w := &hijackWriter{conn: sconn, brw: bufio.NewReadWriter(br, bufio.NewWriter(sconn)), hdr: http.Header{}}
		c, err := up.Upgrade(w, req, nil)
		srvDone <- res{c, err}
	}()
	u, _ := url.Parse("ws://srv.test/")
	hdr := http.Header{}
	hdr["Sec-WebSocket-Protocol"] = []string{"lime"}
	c, _, err := websocket.NewClient(cconn, u, hdr, 1024, 1024)
	if err != nil {
		panic(fmt.Sprintf("websocket client handshake: %v", err))
	}
	r := <-srvDone
	if r.err != nil {
		panic(fmt.Sprintf("websocket server handshake: %v", r.err))
	}
	return c, r.c, cconn, sconn
}

// WSTransports returns a connected pair of the library's WebSocket transports
// over a virtual pipe.
func WSTransports(capacity int) (ct, st lime.Transport, cconn, sconn *rt.Conn) {
	c, s, cc, sc := WSConns(capacity)
	return lime.NewWebsocketTransportFromConn(c, false), lime.NewWebsocketTransportFromConn(s, false), cc, sc
}
