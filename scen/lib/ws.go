package lib

import (
	"bufio"
	"bytes"
	"fmt"
	"io"
	"net"
	"net/http"
	"net/url"
	"time"

	"github.com/gorilla/websocket"
	lime "github.com/takenet/lime-go"
	"verif/gosim/rt"
)

// hijackWriter is the http.ResponseWriter the WebSocket upgrader needs: it
// only ever hijacks the connection.
type hijackWriter struct {
	conn net.Conn
	brw  *bufio.ReadWriter
	hdr  http.Header
}

func (h *hijackWriter) Header() http.Header         { return h.hdr }
func (h *hijackWriter) Write(b []byte) (int, error) { return h.conn.Write(b) }
func (h *hijackWriter) WriteHeader(int)             {}
func (h *hijackWriter) Hijack() (net.Conn, *bufio.ReadWriter, error) {
	return h.conn, h.brw, nil
}

// WSConns performs a real WebSocket opening handshake (gorilla client against the
// upgrader the library's listener configures: subprotocol "lime") over a virtual pipe
// of the given capacity and returns the two upgraded connections.
func WSConns(capacity int) (cws, sws *websocket.Conn, cconn, sconn *rt.Conn) {
	cconn, sconn = rt.Pipe(capacity)
	cconn.Name, sconn.Name = "client", "server"
	type res struct {
		c   *websocket.Conn
		err error
	}
	srvDone := make(chan res, 1)
	go func() {
		br := bufio.NewReader(sconn)
		req, err := http.ReadRequest(br)
		if err != nil {
			srvDone <- res{nil, err}
			return
		}
		up := &websocket.Upgrader{Subprotocols: []string{"lime"}}
		w := &hijackWriter{conn: sconn, brw: bufio.NewReadWriter(br, bufio.NewWriter(sconn)), hdr: http.Header{}}
		c, err := up.Upgrade(w, req, nil)
		srvDone <- res{c, err}
	}()
	u, _ := url.Parse("ws://srv.test/")
	hdr := http.Header{}
	hdr["Sec-WebSocket-Protocol"] = []string{"lime"}
	c, _, err := websocket.NewClient(cconn, u, hdr, 1024, 1024)
	if err != nil {
		panic(fmt.Sprintf("websocket client handshake: %v", err))
	}
	r := <-srvDone
	if r.err != nil {
		panic(fmt.Sprintf("websocket server handshake: %v", r.err))
	}
	return c, r.c, cconn, sconn
}

// WSTransports returns a connected pair of the library's WebSocket transports
// over a virtual pipe.
func WSTransports(capacity int) (ct, st lime.Transport, cconn, sconn *rt.Conn) {
	c, s, cc, sc := WSConns(capacity)
	return lime.NewWebsocketTransportFromConn(c, false), lime.NewWebsocketTransportFromConn(s, false), cc, sc
}

// wsNetConn presents an upgraded WebSocket connection as a byte stream of
// newline-terminated text messages, so that the scripted RawPeer can talk to a
// WebSocket server end: one Write = one text message, Read yields the payload
// of the next message followed by a newline.
type wsNetConn struct {
	ws  *websocket.Conn
	raw *rt.Conn
	buf []byte
}

func (w *wsNetConn) Read(p []byte) (int, error) {
	if len(w.buf) == 0 {
		_, b, err := w.ws.ReadMessage()
		if err != nil {
			if _, ok := err.(*websocket.CloseError); ok {
				return 0, io.EOF
			}
			return 0, err
		}
		w.buf = append(b, '\n')
	}
	n := copy(p, w.buf)
	w.buf = w.buf[n:]
	return n, nil
}

func (w *wsNetConn) Write(b []byte) (int, error) {
	if err := w.ws.WriteMessage(websocket.TextMessage, bytes.TrimRight(b, "\n")); err != nil {
		return 0, err
	}
	return len(b), nil
}
func (w *wsNetConn) Close() error                       { return w.ws.Close() }
func (w *wsNetConn) LocalAddr() net.Addr                { return w.raw.LocalAddr() }
func (w *wsNetConn) RemoteAddr() net.Addr               { return w.raw.RemoteAddr() }
func (w *wsNetConn) SetReadDeadline(t time.Time) error  { return w.ws.SetReadDeadline(t) }
func (w *wsNetConn) SetWriteDeadline(t time.Time) error { return w.ws.SetWriteDeadline(t) }
func (w *wsNetConn) SetDeadline(t time.Time) error {
	_ = w.ws.SetReadDeadline(t)
	return w.ws.SetWriteDeadline(t)
}

// NewRawPeerWS is a scripted peer speaking text messages over an upgraded connection.
func NewRawPeerWS(ws *websocket.Conn, raw *rt.Conn) *RawPeer {
	return &RawPeer{Raw: raw, Conn: &wsNetConn{ws: ws, raw: raw}, WS: true}
}

// DialWSRaw is DialWS for a scripted client: the server-side transport is queued for
// Accept, the client's upgraded connection and raw connection are returned.
func (l *PipeListener) DialWSRaw() (*websocket.Conn, *rt.Conn) {
	cws, sws, c, s := WSConns(l.Cap)
	l.Servers = append(l.Servers, s)
	l.Clients = append(l.Clients, c)
	l.Base = append(l.Base, s.BytesRead)
	l.WSServers = append(l.WSServers, sws)
	t := lime.NewWebsocketTransportFromConn(sws, false)
	l.Transports = append(l.Transports, t)
	l.ch <- t
	return cws, c
}
