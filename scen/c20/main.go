// C20 - each inbound envelope is dispatched to exactly the first matching
// handler. Handler tables and inbound sequences are enumerated through
// rt.Choose; the dispatch loop runs inside a real Server / Client.
package main

import (
	"context"
	"errors"
	"fmt"
	"strings"
	"time"

	lime "github.com/takenet/lime-go"
	"verif/gosim/harness"
	"verif/gosim/rt"
	"verif/scen/lib"
)

const kinds = 4 // 0 message, 1 notification, 2 request, 3 response

type hspec struct {
	pred    int  // 0 nil, 1 true, 2 false, 3 id=="a"
	fail    bool // handler returns an error
	viaIntf bool // registered as interface value instead of func pair
}

type inv struct {
	kind, idx int
	id        string
	canon     string
	failed    bool
}

type state struct {
	tables [kinds][]hspec
	seq    []struct {
		kind int
		id   string
	}
	invs     []inv
	sent     map[string]string // id/kind -> canon of what was sent
	role     string
	finState lime.SessionState
	rcvDone  bool
	srvChan  *lime.ServerChannel
	estCount int
	finCount int
	srvState lime.SessionState
	sentOK   int // number of envelopes of the sequence whose send succeeded
}

func accepts(p int, id string) bool {
	switch p {
	case 0, 1:
		return true
	case 2:
		return false
	}
	return id == "a"
}

type msgH struct {
	st  *state
	x   *harness.X
	idx int
	h   hspec
}

func (m *msgH) Match(msg *lime.Message) bool { return accepts(m.h.pred, msg.ID) }
func (m *msgH) Handle(ctx context.Context, msg *lime.Message, s lime.Sender) error {
	return record(m.x, m.st, 0, m.idx, msg.ID, msg, m.h.fail)
}

func record(x *harness.X, st *state, kind, idx int, id string, env interface{}, fail bool) error {
	st.invs = append(st.invs, inv{kind: kind, idx: idx, id: id, canon: lib.Canon(env), failed: fail})
	x.Obs("handler kind=%d idx=%d id=%s fail=%v", kind, idx, id, fail)
	if fail {
		if idx%2 == 1 {
			// e.g. the handler's own sub-operation timed out: still a handler error
			return fmt.Errorf("handler failure: %w", context.DeadlineExceeded)
		}
		return errors.New("handler failure")
	}
	return nil
}

func buildMux(x *harness.X, st *state, mux *lime.EnvelopeMux) {
	for i, h := range st.tables[0] {
		i, h := i, h
		if h.viaIntf {
			mux.MessageHandler(&msgH{st: st, x: x, idx: i, h: h})
			continue
		}
		var p lime.MessagePredicate
		if h.pred != 0 {
			p = func(m *lime.Message) bool { return accepts(h.pred, m.ID) }
		}
		mux.MessageHandlerFunc(p, func(ctx context.Context, m *lime.Message, s lime.Sender) error {
			return record(x, st, 0, i, m.ID, m, h.fail)
		})
	}
	for i, h := range st.tables[1] {
		i, h := i, h
		var p lime.NotificationPredicate
		if h.pred != 0 {
			p = func(n *lime.Notification) bool { return accepts(h.pred, n.ID) }
		}
		mux.NotificationHandlerFunc(p, func(ctx context.Context, n *lime.Notification) error {
			return record(x, st, 1, i, n.ID, n, h.fail)
		})
	}
	for i, h := range st.tables[2] {
		i, h := i, h
		var p lime.RequestCommandPredicate
		if h.pred != 0 {
			p = func(c *lime.RequestCommand) bool { return accepts(h.pred, c.ID) }
		}
		mux.RequestCommandHandlerFunc(p, func(ctx context.Context, c *lime.RequestCommand, s lime.Sender) error {
			return record(x, st, 2, i, c.ID, c, h.fail)
		})
	}
	for i, h := range st.tables[3] {
		i, h := i, h
		var p lime.ResponseCommandPredicate
		if h.pred != 0 {
			p = func(c *lime.ResponseCommand) bool { return accepts(h.pred, c.ID) }
		}
		mux.ResponseCommandHandlerFunc(p, func(ctx context.Context, c *lime.ResponseCommand, s lime.Sender) error {
			return record(x, st, 3, i, c.ID, c, h.fail)
		})
	}
}

// chooseTable enumerates handler tables: mode "one" = up to maxH handlers of a
// single kind; mode "mixed" = at most one handler per kind.
func chooseTables(st *state, mode string, maxH int) {
	pick := func() hspec {
		if mode == "mixed4" {
			// reduced per-handler alphabet: true/ok, false/ok, id==a/ok, true/error
			c := rt.Choose(4)
			return hspec{pred: []int{1, 2, 3, 1}[c], fail: c == 3}
		}
		c := rt.Choose(8)
		return hspec{pred: c % 4, fail: c >= 4}
	}
	if mode == "one" {
		k := rt.Choose(kinds)
		n := rt.Choose(maxH + 1)
		for i := 0; i < n; i++ {
			h := pick()
			if k == 0 && i == n-1 {
				h.viaIntf = rt.Choose(2) == 1
			}
			st.tables[k] = append(st.tables[k], h)
		}
		return
	}
	for k := 0; k < kinds; k++ {
		if rt.Choose(2) == 1 {
			st.tables[k] = append(st.tables[k], pick())
		}
	}
}

func chooseSeq(st *state, maxLen int, onlyKind int) {
	n := 1 + rt.Choose(maxLen)
	for i := 0; i < n; i++ {
		k := onlyKind
		if k < 0 {
			k = rt.Choose(kinds)
		}
		id := []string{"a", "b"}[rt.Choose(2)]
		st.seq = append(st.seq, struct {
			kind int
			id   string
		}{k, id})
	}
}

type sender interface {
	SendMessage(context.Context, *lime.Message) error
	SendNotification(context.Context, *lime.Notification) error
	SendRequestCommand(context.Context, *lime.RequestCommand) error
	SendResponseCommand(context.Context, *lime.ResponseCommand) error
}

func sendSeq(ctx context.Context, x *harness.X, st *state, s sender) {
	for i, e := range st.seq {
		var err error
		var canon string
		switch e.kind {
		case 0:
			m := lib.Msg(e.id, fmt.Sprintf("m%d", i))
			canon = lib.Canon(m)
			err = s.SendMessage(ctx, m)
		case 1:
			n := lib.Not(e.id, lime.NotificationEventReceived)
			canon = lib.Canon(n)
			err = s.SendNotification(ctx, n)
		case 2:
			c := lib.Req(e.id, fmt.Sprintf("/r%d", i))
			canon = lib.Canon(c)
			err = s.SendRequestCommand(ctx, c)
		case 3:
			c := lib.Resp(e.id)
			c.SetMetadataKeyValue("n", fmt.Sprint(i))
			canon = lib.Canon(c)
			err = s.SendResponseCommand(ctx, c)
		}
		st.sent[fmt.Sprintf("%d/%d", i, e.kind)] = canon
		if err != nil {
			x.Obs("send %d failed", i)
			st.sentOK = i
			return
		}
		st.sentOK = i + 1
	}
}

// serverBody: real Server with the mux; a raw client channel sends the sequence.
func serverBody(mode string, maxH, maxLen int) func(x *harness.X) {
	return func(x *harness.X) {
		lib.Reset()
		st := &state{sent: map[string]string{}, role: "server"}
		x.Vars["st"] = st
		chooseTables(st, mode, maxH)
		only := -1
		if mode == "one" {
			for k := range st.tables {
				if len(st.tables[k]) > 0 {
					only = k
				}
			}
			if only < 0 {
				only = rt.Choose(kinds)
			}
		}
		chooseSeq(st, maxLen, only)
		mux := &lime.EnvelopeMux{}
		buildMux(x, st, mux)
		cfg := lime.NewServerConfig()
		cfg.Node = lib.ServerNode
		cfg.SchemeOpts = []lime.AuthenticationScheme{lime.AuthenticationSchemeGuest}
		cfg.EncryptOpts = []lime.SessionEncryption{lime.SessionEncryptionNone}
		cfg.Backlog = 1
		cfg.ChannelBufferSize = 1
		cfg.Authenticate = lib.GuestOK
		cfg.Register = lib.RegisterSame
		cfg.Established = func(id string, c *lime.ServerChannel) { st.srvChan = c; st.estCount++; x.Obs("established") }
		cfg.Finished = func(id string) { st.finCount++; x.Obs("finished-callback") }
		addr := lime.InProcessAddr("c20")
		srv := lime.NewServer(cfg, mux, lime.NewBoundListener(lime.NewInProcessTransportListener(addr), addr))
		go func() { _ = srv.ListenAndServe() }()
		ct := lib.DialInProcRetry(addr, 1)
		cc := lime.NewClientChannel(ct, 1)
		ctx, cancel := context.WithTimeout(context.Background(), 20*time.Second)
		defer cancel()
		ses, err := lib.ClientEstablishGuest(ctx, cc, "alice")
		if err != nil || ses.State != lime.SessionStateEstablished {
			x.Failf("setup", "client could not establish: %v %v", err, ses)
			rt.Stop()
		}
		rt.BeginExplore()
		sendSeq(ctx, x, st, cc)
		// wait (virtual clock) for the server to settle, then look at our end
		select {
		case <-cc.RcvDone():
			st.rcvDone = true
		case <-time.After(5 * time.Second):
		}
		rt.EndExplore()
		time.Sleep(10 * time.Second) // let the server side settle
		st.finState = cc.State()
		if st.srvChan != nil {
			st.srvState = st.srvChan.State()
		}
		rt.Stop()
	}
}

// clientBody: real Client with the mux; a raw server channel sends the sequence.
func clientBody(mode string, maxH, maxLen int) func(x *harness.X) {
	return func(x *harness.X) {
		lib.Reset()
		st := &state{sent: map[string]string{}, role: "client"}
		x.Vars["st"] = st
		chooseTables(st, mode, maxH)
		// handler errors on the client only end one ListenClient round; the
		// property's error clause is about the server role, so client tables
		// never fail
		for k := range st.tables {
			for i := range st.tables[k] {
				st.tables[k][i].fail = false
			}
		}
		only := -1
		if mode == "one" {
			for k := range st.tables {
				if len(st.tables[k]) > 0 {
					only = k
				}
			}
			if only < 0 {
				only = rt.Choose(kinds)
			}
		}
		chooseSeq(st, maxLen, only)
		mux := &lime.EnvelopeMux{}
		buildMux(x, st, mux)
		addr := lime.InProcessAddr("c20c")
		l := lime.NewInProcessTransportListener(addr)
		if err := l.Listen(context.Background(), addr); err != nil {
			panic(err)
		}
		ccfg := lime.NewClientConfig()
		ccfg.Node = lime.Node{Identity: lime.Identity{Name: "alice", Domain: "cli.test"}, Instance: "i"}
		ccfg.ChannelBufferSize = 1
		ccfg.NewTransport = func(context.Context) (lime.Transport, error) { return lime.DialInProcess(addr, 1) }
		ccfg.CompSelector = lime.NoneCompressionSelector
		ccfg.EncryptSelector = lime.NoneEncryptionSelector
		ccfg.Authenticator = lime.GuestAuthenticator
		ctx, cancel := context.WithTimeout(context.Background(), 20*time.Second)
		defer cancel()
		client := lime.NewClient(ccfg, mux)
		_ = client
		tr, err := l.Accept(ctx)
		if err != nil {
			x.Failf("setup", "accept: %v", err)
			rt.Stop()
		}
		sc := lime.NewServerChannel(tr, 1, lib.ServerNode, "sid-c20")
		if err := lib.ServerEstablishGuest(ctx, sc); err != nil {
			x.Failf("setup", "server establish: %v", err)
			rt.Stop()
		}
		rt.BeginExplore()
		sendSeq(ctx, x, st, sc)
		time.Sleep(5 * time.Second)
		rt.EndExplore()
		rt.Stop()
	}
}

// final is the reference model: first registered matching handler, once, in
// per-kind order; after a failing handler nothing more runs (server role).
func final(x *harness.X, r *rt.Result) {
	if r.Crash != "" {
		x.Failf("crash:"+r.CrashSite, "panic: %s", firstLine(r.Crash))
		return
	}
	st, _ := x.Vars["st"].(*state)
	if st == nil {
		return
	}
	// expected invocation per inbound envelope
	type exp struct {
		idx  int
		id   string
		fail bool
		pos  int
	}
	var perKind [kinds][]exp
	for i, e := range st.seq {
		if i >= st.sentOK {
			break // never sent: nothing to dispatch
		}
		for hi, h := range st.tables[e.kind] {
			if accepts(h.pred, e.id) {
				perKind[e.kind] = append(perKind[e.kind], exp{hi, e.id, h.fail, i})
				break
			}
		}
	}
	var cursor [kinds]int
	failedAt := -1
	for n, v := range st.invs {
		if failedAt >= 0 {
			x.Failf("after-error", "handler kind=%d idx=%d id=%s ran after handler error at invocation %d", v.kind, v.idx, v.id, failedAt)
			return
		}
		c := cursor[v.kind]
		if c >= len(perKind[v.kind]) {
			x.Failf("extra", "unexpected invocation %d: kind=%d idx=%d id=%s (tables %v seq %v)", n, v.kind, v.idx, v.id, st.tables, st.seq)
			return
		}
		e := perKind[v.kind][c]
		if e.idx != v.idx || e.id != v.id {
			x.Failf("wrong-handler", "invocation %d of kind %d: handler %d for id %s, model says handler %d for id %s (tables %v seq %v)", n, v.kind, v.idx, v.id, e.idx, e.id, st.tables, st.seq)
			return
		}
		if want := st.sent[fmt.Sprintf("%d/%d", e.pos, v.kind)]; want != v.canon {
			x.Failf("content", "handler saw %s, sent %s", v.canon, want)
			return
		}
		cursor[v.kind]++
		if v.failed && st.role == "server" {
			failedAt = n
		}
	}
	if failedAt < 0 {
		for k := 0; k < kinds; k++ {
			if cursor[k] != len(perKind[k]) {
				x.Failf("missing", "kind %d: %d of %d expected invocations happened (tables %v seq %v obs %v)", k, cursor[k], len(perKind[k]), st.tables, st.seq, x.Log())
				return
			}
		}
	} else if st.role == "server" {
		// "which the server then finishes": the server moved the session to
		// finished, told the application exactly once, and the client's side of
		// the session ended. (Whether the client also *decodes* the finished
		// envelope before the in-process transport drops it is C13's subject.)
		if st.srvState != lime.SessionStateFinished || st.finCount != 1 || !st.rcvDone {
			x.Failf("not-finished", "handler error but the session was not finished by the server (server state=%v finished-callbacks=%d client rcvDone=%v client state=%v)", st.srvState, st.finCount, st.rcvDone, st.finState)
		}
	}
}

// ---- tables registered through the builders -------------------------------------------------
//
// ClientBuilder and ServerBuilder register into the same kind of table; AutoReplyPings is one
// more registration. Every sequence of three registrations over {none, catch-all, "get /ping"
// predicate, "/x" predicate, AutoReplyPings} on either builder; the peer (built by the other
// builder) sends get /ping, get /x, get /ping; the handler log and the responses that come
// back are compared with "earliest registered handler that accepts".

type bstate struct {
	role  string
	regs  []string
	invs  map[string][]int    // request id -> handlers invoked
	resps map[string][]string // request id -> who answered ("h<i>" or "auto")
	done  bool
}

var bAlpha = []string{"none", "all", "ping", "x", "auto"}

func builderBody(role string) func(x *harness.X) {
	return func(x *harness.X) {
		lib.Reset()
		st := &bstate{role: role, invs: map[string][]int{}, resps: map[string][]string{}}
		x.Vars["bst"] = st
		for i := 0; i < 3; i++ {
			st.regs = append(st.regs, bAlpha[rt.Choose(len(bAlpha))])
		}
		isPing := func(c *lime.RequestCommand) bool { return c.Method == lime.CommandMethodGet && c.URI.Path() == "/ping" }
		isX := func(c *lime.RequestCommand) bool { return c.URI.Path() == "/x" }
		handler := func(i int) lime.RequestCommandHandlerFunc {
			return func(ctx context.Context, c *lime.RequestCommand, snd lime.Sender) error {
				st.invs[c.ID] = append(st.invs[c.ID], i)
				x.Obs("handler %d got %s", i, c.ID)
				r := c.SuccessResponse()
				r.SetMetadataKeyValue("by", fmt.Sprintf("h%d", i))
				return snd.SendResponseCommand(ctx, r)
			}
		}
		onResp := func(ctx context.Context, r *lime.ResponseCommand, snd lime.Sender) error {
			by := r.Metadata["by"]
			if by == "" {
				if _, ok := r.Resource.(*lime.Ping); ok {
					by = "auto"
				} else {
					by = "unknown"
				}
			}
			st.resps[r.ID] = append(st.resps[r.ID], by)
			x.Obs("response %s by %s", r.ID, by)
			return nil
		}
		addr := lime.InProcessAddr("c20b")
		sb := lime.NewServerBuilder().ListenInProcess(addr).EnableGuestAuthentication().ChannelBufferSize(1)
		cb := lime.NewClientBuilder().UseInProcess(addr, 1).GuestAuthentication().ChannelBufferSize(1)
		var srvChan *lime.ServerChannel
		sb = sb.Established(func(id string, c *lime.ServerChannel) { srvChan = c })
		for i, reg := range st.regs {
			switch {
			case reg == "all" && role == "client":
				cb = cb.RequestCommandsHandlerFunc(handler(i))
			case reg == "all":
				sb = sb.RequestCommandsHandlerFunc(handler(i))
			case reg == "ping" && role == "client":
				cb = cb.RequestCommandHandlerFunc(isPing, handler(i))
			case reg == "ping":
				sb = sb.RequestCommandHandlerFunc(isPing, handler(i))
			case reg == "x" && role == "client":
				cb = cb.RequestCommandHandlerFunc(isX, handler(i))
			case reg == "x":
				sb = sb.RequestCommandHandlerFunc(isX, handler(i))
			case reg == "auto" && role == "client":
				cb = cb.AutoReplyPings()
			case reg == "auto":
				sb = sb.AutoReplyPings()
			}
		}
		if role == "client" {
			sb = sb.ResponseCommandsHandlerFunc(onResp)
		} else {
			cb = cb.ResponseCommandsHandlerFunc(onResp)
		}
		srv := sb.Build()
		go func() { _ = srv.ListenAndServe() }()
		rt.Quiesce()
		client := cb.Build()
		ctx, cancel := context.WithTimeout(context.Background(), 30*time.Second)
		defer cancel()
		if err := client.Establish(ctx); err != nil {
			x.Failf("setup", "builder client could not establish: %v", err)
			rt.Stop()
		}
		rt.Quiesce()
		rt.BeginExplore()
		for _, q := range [][2]string{{"p1", "/ping"}, {"x1", "/x"}, {"p2", "/ping"}} {
			req := lib.Req(q[0], q[1])
			var err error
			if role == "client" {
				if srvChan == nil {
					x.Failf("setup", "no server channel")
					rt.Stop()
				}
				err = srvChan.SendRequestCommand(ctx, req)
			} else if q[0] == "p2" {
				// through the high-level Client's ProcessCommand: the answer comes back as its result
				pctx, pc := context.WithTimeout(context.Background(), 2*time.Second)
				var resp *lime.ResponseCommand
				if resp, err = client.ProcessCommand(pctx, req); err == nil {
					_ = onResp(pctx, resp, nil)
				} else {
					x.Obs("ProcessCommand p2 returned an error")
					err = nil
				}
				pc()
			} else {
				err = client.SendRequestCommand(ctx, req)
			}
			if err != nil {
				x.Obs("send %s failed", q[0])
			}
			rt.Quiesce()
		}
		rt.EndExplore()
		st.done = true
		rt.Stop()
	}
}

func builderFinal(x *harness.X, r *rt.Result) {
	if r.Crash != "" {
		x.Failf("crash:"+r.CrashSite, "panic: %s", firstLine(r.Crash))
		return
	}
	st, _ := x.Vars["bst"].(*bstate)
	if st == nil || !st.done {
		return
	}
	hist := fmt.Sprintf("[%s builder, registrations in order %v; %s]", st.role, st.regs, strings.Join(x.Log(), " | "))
	for _, q := range [][2]string{{"p1", "/ping"}, {"x1", "/x"}, {"p2", "/ping"}} {
		want := "" // who handles it: "h<i>", "auto" or nobody
		for i, reg := range st.regs {
			if reg == "all" || reg == "ping" && q[1] == "/ping" || reg == "x" && q[1] == "/x" {
				want = fmt.Sprintf("h%d", i)
			} else if reg == "auto" && q[1] == "/ping" {
				want = "auto"
			}
			if want != "" {
				break
			}
		}
		var gotInv []string
		for _, i := range st.invs[q[0]] {
			gotInv = append(gotInv, fmt.Sprintf("h%d", i))
		}
		var wantInv, wantResp []string
		if strings.HasPrefix(want, "h") {
			wantInv = []string{want}
		}
		if want != "" {
			wantResp = []string{want}
		}
		if strings.Join(gotInv, ",") != strings.Join(wantInv, ",") {
			x.Failf("builder:wrong-handler:"+st.role, "request %s (%s): handlers invoked %v, the earliest registered that accepts it is %q %s", q[0], q[1], gotInv, want, hist)
		}
		if strings.Join(st.resps[q[0]], ",") != strings.Join(wantResp, ",") {
			x.Failf("builder:wrong-answer:"+st.role, "request %s (%s): answered by %v, the earliest registered that accepts it is %q %s", q[0], q[1], st.resps[q[0]], want, hist)
		}
	}
}

// ---- every registration helper of both builders, all four kinds ----------------------------
//
// For one kind at a time: three registrations over {none, catch-all helper (XsHandlerFunc),
// predicate helper (XHandlerFunc, id == "a"), handler object (XHandler, Match: id == "b")} on
// the ClientBuilder or the ServerBuilder; the peer sends envelopes a, b, c of that kind.

type bkState struct {
	role, kind string
	regs       []string
	invs       map[string][]int
	done       bool
}

type bkMsgH struct {
	st *bkState
	x  *harness.X
	i  int
}

func (h *bkMsgH) Match(m *lime.Message) bool { return m.ID == "b" }
func (h *bkMsgH) Handle(ctx context.Context, m *lime.Message, s lime.Sender) error {
	h.st.hit(h.x, h.i, m.ID)
	return nil
}

type bkNotH bkMsgH

func (h *bkNotH) Match(n *lime.Notification) bool { return n.ID == "b" }
func (h *bkNotH) Handle(ctx context.Context, n *lime.Notification) error {
	h.st.hit(h.x, h.i, n.ID)
	return nil
}

type bkReqH bkMsgH

func (h *bkReqH) Match(c *lime.RequestCommand) bool { return c.ID == "b" }
func (h *bkReqH) Handle(ctx context.Context, c *lime.RequestCommand, s lime.Sender) error {
	h.st.hit(h.x, h.i, c.ID)
	return nil
}

type bkRespH bkMsgH

func (h *bkRespH) Match(c *lime.ResponseCommand) bool { return c.ID == "b" }
func (h *bkRespH) Handle(ctx context.Context, c *lime.ResponseCommand, s lime.Sender) error {
	h.st.hit(h.x, h.i, c.ID)
	return nil
}

func (st *bkState) hit(x *harness.X, i int, id string) {
	st.invs[id] = append(st.invs[id], i)
	x.Obs("registration %d handled %s", i, id)
}

var bkAlpha = []string{"none", "all", "pred-a", "obj-b"}

func builderKindsBody(role string) func(x *harness.X) {
	return func(x *harness.X) {
		lib.Reset()
		st := &bkState{role: role, invs: map[string][]int{}}
		x.Vars["bk"] = st
		kindsOf := []string{"message", "notification", "request", "response"}
		if role == "server" {
			kindsOf = kindsOf[:3] // the high-level Client has no operation that sends a response command
		}
		st.kind = kindsOf[rt.Choose(len(kindsOf))]
		for i := 0; i < 3; i++ {
			st.regs = append(st.regs, bkAlpha[rt.Choose(len(bkAlpha))])
		}
		addr := lime.InProcessAddr("c20k")
		sb := lime.NewServerBuilder().ListenInProcess(addr).EnableGuestAuthentication().ChannelBufferSize(1)
		cb := lime.NewClientBuilder().UseInProcess(addr, 1).GuestAuthentication().ChannelBufferSize(1)
		var srvChan *lime.ServerChannel
		sb = sb.Established(func(id string, c *lime.ServerChannel) { srvChan = c })
		onClient := role == "client"
		for i, reg := range st.regs {
			i := i
			mf := func(ctx context.Context, m *lime.Message, s lime.Sender) error { st.hit(x, i, m.ID); return nil }
			nf := func(ctx context.Context, n *lime.Notification) error { st.hit(x, i, n.ID); return nil }
			qf := func(ctx context.Context, c *lime.RequestCommand, s lime.Sender) error { st.hit(x, i, c.ID); return nil }
			pf := func(ctx context.Context, c *lime.ResponseCommand, s lime.Sender) error {
				st.hit(x, i, c.ID)
				return nil
			}
			switch st.kind + "/" + reg {
			case "message/all":
				if onClient {
					cb = cb.MessagesHandlerFunc(mf)
				} else {
					sb = sb.MessagesHandlerFunc(mf)
				}
			case "message/pred-a":
				pr := func(m *lime.Message) bool { return m.ID == "a" }
				if onClient {
					cb = cb.MessageHandlerFunc(pr, mf)
				} else {
					sb = sb.MessageHandlerFunc(pr, mf)
				}
			case "message/obj-b":
				if onClient {
					cb = cb.MessageHandler(&bkMsgH{st, x, i})
				} else {
					sb = sb.MessageHandler(&bkMsgH{st, x, i})
				}
			case "notification/all":
				if onClient {
					cb = cb.NotificationsHandlerFunc(nf)
				} else {
					sb = sb.NotificationsHandlerFunc(nf)
				}
			case "notification/pred-a":
				pr := func(n *lime.Notification) bool { return n.ID == "a" }
				if onClient {
					cb = cb.NotificationHandlerFunc(pr, nf)
				} else {
					sb = sb.NotificationHandlerFunc(pr, nf)
				}
			case "notification/obj-b":
				if onClient {
					cb = cb.NotificationHandler(&bkNotH{st, x, i})
				} else {
					sb = sb.NotificationHandler(&bkNotH{st, x, i})
				}
			case "request/all":
				if onClient {
					cb = cb.RequestCommandsHandlerFunc(qf)
				} else {
					sb = sb.RequestCommandsHandlerFunc(qf)
				}
			case "request/pred-a":
				pr := func(c *lime.RequestCommand) bool { return c.ID == "a" }
				if onClient {
					cb = cb.RequestCommandHandlerFunc(pr, qf)
				} else {
					sb = sb.RequestCommandHandlerFunc(pr, qf)
				}
			case "request/obj-b":
				if onClient {
					cb = cb.RequestCommandHandler(&bkReqH{st, x, i})
				} else {
					sb = sb.RequestCommandHandler(&bkReqH{st, x, i})
				}
			case "response/all":
				if onClient {
					cb = cb.ResponseCommandsHandlerFunc(pf)
				} else {
					sb = sb.ResponseCommandsHandlerFunc(pf)
				}
			case "response/pred-a":
				pr := func(c *lime.ResponseCommand) bool { return c.ID == "a" }
				if onClient {
					cb = cb.ResponseCommandHandlerFunc(pr, pf)
				} else {
					sb = sb.ResponseCommandHandlerFunc(pr, pf)
				}
			case "response/obj-b":
				if onClient {
					cb = cb.ResponseCommandHandler(&bkRespH{st, x, i})
				} else {
					sb = sb.ResponseCommandHandler(&bkRespH{st, x, i})
				}
			}
		}
		srv := sb.Build()
		go func() { _ = srv.ListenAndServe() }()
		rt.Quiesce()
		client := cb.Build()
		ctx, cancel := context.WithTimeout(context.Background(), 30*time.Second)
		defer cancel()
		if err := client.Establish(ctx); err != nil {
			x.Failf("setup", "builder client could not establish: %v", err)
			rt.Stop()
		}
		rt.Quiesce()
		if onClient && srvChan == nil {
			x.Failf("setup", "no server channel")
			rt.Stop()
		}
		rt.BeginExplore()
		for _, id := range []string{"a", "b", "c"} {
			var err error
			switch st.kind {
			case "message":
				if onClient {
					err = srvChan.SendMessage(ctx, lib.Msg(id, "x"))
				} else {
					err = client.SendMessage(ctx, lib.Msg(id, "x"))
				}
			case "notification":
				if onClient {
					err = srvChan.SendNotification(ctx, lib.Not(id, lime.NotificationEventReceived))
				} else {
					err = client.SendNotification(ctx, lib.Not(id, lime.NotificationEventReceived))
				}
			case "request":
				if onClient {
					err = srvChan.SendRequestCommand(ctx, lib.Req(id, "/x"))
				} else {
					err = client.SendRequestCommand(ctx, lib.Req(id, "/x"))
				}
			case "response":
				if onClient {
					err = srvChan.SendResponseCommand(ctx, lib.Resp(id))
				}
			}
			if err != nil {
				x.Obs("send %s failed", id)
			}
			rt.Quiesce()
		}
		rt.EndExplore()
		st.done = true
		rt.Stop()
	}
}

func builderKindsFinal(x *harness.X, r *rt.Result) {
	if r.Crash != "" {
		x.Failf("crash:"+r.CrashSite, "panic: %s", firstLine(r.Crash))
		return
	}
	st, _ := x.Vars["bk"].(*bkState)
	if st == nil || !st.done {
		return
	}
	hist := fmt.Sprintf("[%s builder, %s handlers registered in order %v; %s]", st.role, st.kind, st.regs, strings.Join(x.Log(), " | "))
	for _, id := range []string{"a", "b", "c"} {
		var want []string
		for i, reg := range st.regs {
			if reg == "all" || reg == "pred-a" && id == "a" || reg == "obj-b" && id == "b" {
				want = []string{fmt.Sprint(i)}
				break
			}
		}
		var got []string
		for _, i := range st.invs[id] {
			got = append(got, fmt.Sprint(i))
		}
		if strings.Join(got, ",") != strings.Join(want, ",") {
			x.Failf("builder-kinds:wrong-handler:"+st.role+":"+st.kind, "%s %q: registrations invoked %v, the earliest registered one that accepts it is %v %s", st.kind, id, got, want, hist)
		}
	}
}

func firstLine(s string) string { return strings.SplitN(s, "\n", 2)[0] }

func main() {
	opt := rt.Options{NoExplore: true, Horizon: 60 * time.Second, MaxSteps: 50000, NoTimerDeviation: true}
	mk := func(name string, body func(*harness.X), q, t int) harness.Scenario {
		return harness.Scenario{Name: name, Opt: opt, Quick: q, Thorough: t, Body: body, Final: final, Prune: true}
	}
	harness.Main(harness.Check{
		Property: "C20",
		Level:    "model_checking",
		Rule:     "handler tables (per kind 0..3 handlers x predicate{nil,true,false,id==a} x outcome{ok,error}; mixed tables with <=1 handler per kind) x inbound sequences (length<=3 over kind x id{a,b}) enumerated as data choices; plus tables registered through ClientBuilder and ServerBuilder: every sequence of three registrations over {none, catch-all, get-/ping predicate, /x predicate, AutoReplyPings} with the peer sending get /ping, get /x, get /ping and the responses observed, and for each of the four kinds every sequence of three registrations over {none, catch-all helper, predicate helper, handler object} made through each builder's own helper methods with the peer sending ids a, b, c; schedules with <= bound deviations inside the dispatch window; distinct outcome = distinct observation log",
		Assume:   []string{"in-process transport only (dispatch logic is transport independent)", "sequentially consistent scheduler; code between visible operations is atomic"},
		Scenarios: []harness.Scenario{
			mk("server/one-kind/h2/len2", serverBody("one", 2, 2), 0, -1),
			mk("server/mixed4/len2", serverBody("mixed4", 1, 2), 0, -1),
			mk("client/one-kind/h2/len2", clientBody("one", 2, 2), 0, -1),
			{Name: "builders/client", Opt: opt, Quick: 0, Thorough: 0, Body: builderBody("client"), Final: builderFinal},
			{Name: "builders/server", Opt: opt, Quick: 0, Thorough: 0, Body: builderBody("server"), Final: builderFinal},
			{Name: "builders/all-kinds/client", Opt: opt, Quick: 0, Thorough: 0, Body: builderKindsBody("client"), Final: builderKindsFinal},
			{Name: "builders/all-kinds/server", Opt: opt, Quick: 0, Thorough: 0, Body: builderKindsBody("server"), Final: builderKindsFinal},
			mk("server/one-kind/h3/len2", serverBody("one", 3, 2), -1, 0),
			mk("server/one-kind/h2/len3", serverBody("one", 2, 3), -1, 0),
			mk("server/mixed4/len3", serverBody("mixed4", 1, 3), -1, 0),
			mk("client/one-kind/h3/len3", clientBody("one", 3, 3), -1, 0),
			mk("client/mixed4/len3", clientBody("mixed4", 1, 3), -1, 0),
			mk("server/one-kind/h2/len2/k1", serverBody("one", 2, 2), -1, 1),
			mk("server/one-kind/h1/len2/k2", serverBody("one", 1, 2), -1, 2),
		},
	})
}
