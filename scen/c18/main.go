// C18 - server start/stop is orderly under any timing. A real Server (pipe
// listener with the real TCP transport, optionally an in-process listener
// too) serves 1-2 real client channels; Close runs in its own goroutine,
// released at a stage chosen as data (start-up, dialled, established, message
// handled) and then placed by the bounded scheduler; oracles: ListenAndServe
// returns ErrServerClosed, no panic, nothing left behind, established clients
// see finished, callback accounting.
package main

import (
	"context"
	"errors"
	"fmt"
	"strings"
	"sync"
	"time"

	lime "github.com/takenet/lime-go"
	"verif/gosim/harness"
	"verif/gosim/rt"
	"verif/scen/lib"
)

type clientRec struct {
	name        string
	dialled     bool
	estErr      error
	established bool
	sid         string
	finalState  lime.SessionState
	streamsDone bool
	msgSent     bool
	msgErr      error
	conn        *rt.Conn
	dropped     bool
	cbFail      bool // the server application fails this session from inside its Established callback
}

type st struct {
	closeErrExpected     bool
	pipeListenerClosed   bool
	inprocStillListening bool
	lasRet               bool
	lasErr               error
	closeErr             error
	closeRet             bool
	closeTries           int
	est                  map[string]int
	fin                  map[string]int
	order                []string // callback/handler events in order
	clients              []*clientRec
	pl                   *lib.PipeListener
	snap                 bool
	stage                int
	lastKind             string
	stalled              *rt.Conn
	stalledClosedAt      time.Duration
	stalledEnded         bool
	closeAt              time.Duration
}

func drainAll(cc *lime.ClientChannel) {
	m, n, q, p := cc.MsgChan(), cc.NotChan(), cc.ReqCmdChan(), cc.RespCmdChan()
	for m != nil || n != nil || q != nil || p != nil {
		select {
		case _, ok := <-m:
			if !ok {
				m = nil
			}
		case _, ok := <-n:
			if !ok {
				n = nil
			}
		case _, ok := <-q:
			if !ok {
				q = nil
			}
		case _, ok := <-p:
			if !ok {
				p = nil
			}
		}
	}
}

func body(nclients int, withInproc, withWS bool) func(x *harness.X) {
	return func(x *harness.X) {
		lib.Reset()
		s := &st{est: map[string]int{}, fin: map[string]int{}}
		x.Vars["st"] = s
		s.stage = rt.Choose(6) // when the closer is released; 4: Close is called from inside the message handler, 5: from inside the Established callback
		sendMsg := rt.Choose(2) == 1 || s.stage == 4
		// what the last client does: a normal session, a handshake the server refuses
		// (unknown role), or a handshake that stalls after the server's first answer
		lastKind := []string{"normal", "refused", "stalled", "drops", "cb-finish", "cb-fail"}[rt.Choose(6)]
		s.lastKind = lastKind
		var srv *lime.Server
		closeStarted := false
		doClose := func(from string) {
			if closeStarted {
				return
			}
			closeStarted = true
			for {
				s.closeTries++
				err := srv.Close()
				if err != nil && strings.Contains(err.Error(), "not listening") && s.closeTries < 50 && !s.lasRet {
					time.Sleep(time.Millisecond) // the property is about a serving server
					continue
				}
				s.closeErr = err
				break
			}
			s.closeRet = true
			s.closeAt = rt.Elapsed()
			x.Obs("Close (%s) returned err=%v tries>1=%v", from, s.closeErr != nil, s.closeTries > 1)
		}
		mux := &lime.EnvelopeMux{}
		mux.MessageHandlerFunc(nil, func(ctx context.Context, m *lime.Message, snd lime.Sender) error {
			id, _ := lime.ContextSessionID(ctx)
			s.order = append(s.order, "handler:"+id)
			x.Obs("handler %s", m.ID)
			if s.stage == 4 {
				doClose("from the message handler")
			}
			return nil
		})
		cfg := lime.NewServerConfig()
		cfg.Node = lib.ServerNode
		cfg.SchemeOpts = []lime.AuthenticationScheme{lime.AuthenticationSchemeGuest}
		cfg.EncryptOpts = []lime.SessionEncryption{lime.SessionEncryptionNone}
		cfg.Backlog, cfg.ChannelBufferSize = 1, 1
		cfg.Register = lib.RegisterSame
		cfg.Authenticate = func(ctx context.Context, id lime.Identity, a lime.Authentication) (*lime.AuthenticationResult, error) {
			if id.Name == "mallory" {
				return lime.UnknownAuthenticationResult(), nil
			}
			return lime.MemberAuthenticationResult(), nil
		}
		lastName := fmt.Sprintf("cli%d", nclients-1)
		cfg.Established = func(id string, c *lime.ServerChannel) {
			s.est[id]++
			s.order = append(s.order, "est:"+id)
			x.Obs("established-callback")
			if s.stage == 5 {
				doClose("from the Established callback")
			}
			if c.RemoteNode().Name == lastName && strings.HasPrefix(lastKind, "cb-") {
				// the application ends the session from inside its Established callback
				cctx, cancel := context.WithTimeout(context.Background(), 10*time.Second)
				defer cancel()
				if lastKind == "cb-finish" {
					_ = c.FinishSession(cctx)
				} else {
					_ = c.FailSession(cctx, &lime.Reason{Code: 9, Description: "not welcome"})
				}
				x.Obs("established-callback ended the session (%s)", lastKind)
			}
		}
		cfg.Finished = func(id string) {
			s.fin[id]++
			s.order = append(s.order, "fin:"+id)
			x.Obs("finished-callback")
		}
		pl := lib.NewPipeListener(nil, 64<<10, 2)
		s.pl = pl
		if withInproc && rt.Choose(2) == 1 {
			// the first listener closes properly but reports an error while doing so
			pl.CloseErr = errors.New("pipe listener: error while closing")
			s.closeErrExpected = true
		}
		listeners := []lime.BoundListener{lime.NewBoundListener(pl, lib.PipeAddr("p"))}
		inaddr := lime.InProcessAddr("c18")
		if withInproc {
			listeners = append(listeners, lime.NewBoundListener(lime.NewInProcessTransportListener(inaddr), inaddr))
		}
		srv = lime.NewServer(cfg, mux, listeners...)
		stageCh := []chan struct{}{make(chan struct{}), make(chan struct{}), make(chan struct{}), make(chan struct{})}
		var stageOnce [4]sync.Once
		reached := func(i int) { stageOnce[i].Do(func() { close(stageCh[i]) }) }
		reached(0)
		rt.BeginExplore()
		go func() {
			s.lasErr = srv.ListenAndServe()
			s.lasRet = true
			x.Obs("ListenAndServe returned closed=%v", errors.Is(s.lasErr, lime.ErrServerClosed))
		}()
		for i := 0; i < nclients; i++ {
			c := &clientRec{name: fmt.Sprintf("cli%d", i)}
			kind := "normal"
			if i == nclients-1 {
				kind = lastKind
			}
			if kind == "refused" {
				c.name = "mallory"
			}
			c.cbFail = kind == "cb-fail"
			s.clients = append(s.clients, c)
			useInproc := withInproc && i == 1
			if kind == "stalled" && !useInproc {
				// raw client: sends new, reads the server's answer, then says nothing more
				go func() {
					conn := pl.Dial()
					c.conn = conn
					s.stalled = conn
					c.dialled = true
					reached(1)
					p := lib.NewRawPeer(conn)
					p.Block = true
					_ = p.Send([]byte(`{"state":"new"}`))
					if _, ok := p.ReadOne(30 * time.Second); ok {
						x.Obs("stalled client got the server's first answer")
					}
					reached(2)
					// wait for the server to hang up
					for !p.EOF && p.Err == nil {
						if _, ok := p.ReadOne(30 * time.Second); !ok {
							break
						}
					}
					s.stalledClosedAt = rt.Elapsed()
					s.stalledEnded = true
					x.Obs("stalled client saw the connection end")
				}()
				continue
			}
			go func() {
				var tr lime.Transport
				if useInproc {
					var ok bool
					if tr, ok = lib.TryDialInProc(inaddr, 1); !ok {
						x.Obs("%s: connection refused", c.name)
						return
					}
				} else if withWS && i == 0 {
					tr, c.conn = pl.DialWS()
				} else {
					c.conn = pl.Dial()
					tr = lime.NewTCPTransportFromConn(c.conn, nil, false)
				}
				c.dialled = true
				reached(1)
				cc := lime.NewClientChannel(tr, 1)
				ctx, cancel := context.WithTimeout(context.Background(), 60*time.Second)
				defer cancel()
				ses, err := lib.ClientEstablishGuest(ctx, cc, c.name)
				if err != nil || ses.State != lime.SessionStateEstablished {
					c.estErr = fmt.Errorf("establish: %v %v", err, ses)
					x.Obs("%s could not establish", c.name)
					_ = cc.Close()
					reached(2)
					return
				}
				c.established = true
				c.sid = cc.ID()
				x.Obs("%s established", c.name)
				reached(2)
				if sendMsg {
					c.msgErr = cc.SendMessage(ctx, lib.Msg(c.name+"-m", "hello"))
					c.msgSent = true
				}
				if kind == "drops" {
					// the client goes away without finishing: the session was established, so
					// the server owes it exactly one Finished callback
					c.dropped = true
					x.Obs("%s drops its connection", c.name)
					_ = cc.Close()
					return
				}
				drainAll(cc) // keeps consuming until the session ends
				c.streamsDone = true
				c.finalState = cc.State()
				x.Obs("%s saw end state=%v", c.name, c.finalState)
				_ = cc.Close()
			}()
		}
		// closer: released at the chosen stage
		go func() {
			switch s.stage {
			case 3, 4, 5:
				// after the server had time to handle what the clients sent (4, 5: unless a
				// handler or callback has closed the server by then)
				<-stageCh[2]
				time.Sleep(2 * time.Second)
			default:
				<-stageCh[s.stage]
			}
			doClose("from a goroutine of the application")
		}()
		for i := 0; i < 6; i++ {
			rt.Quiesce()
			time.Sleep(6 * time.Second)
		}
		rt.Quiesce()
		rt.EndExplore()
		// "stops all listeners"
		s.pipeListenerClosed = pl.IsClosed()
		if withInproc {
			if t, ok := lib.TryDialInProc(inaddr, 1); ok {
				s.inprocStillListening = true
				_ = t.Close()
			}
		}
		s.snap = true
		rt.Stop()
	}
}

func final(x *harness.X, res *rt.Result) {
	s, _ := x.Vars["st"].(*st)
	if s == nil {
		return
	}
	hist := fmt.Sprintf("[close stage %d; %s]", s.stage, strings.Join(x.Log(), " | "))
	if res.Crash != "" {
		x.Failf("panic:"+res.CrashSite, "%s %s", strings.SplitN(res.Crash, "\n", 2)[0], hist)
		return
	}
	if !s.snap {
		return
	}
	if !s.closeRet {
		x.Failf("close-blocked", "Server.Close never returned %s", hist)
	}
	if s.closeRet && (!s.pipeListenerClosed || s.inprocStillListening) {
		x.Failf("listener-not-stopped", "after Server.Close (error: %v) the pipe listener is closed=%v and the in-process listener still accepts=%v %s", s.closeErr, s.pipeListenerClosed, s.inprocStillListening, hist)
	}
	// a handshake that stalls must not keep other connections from being served
	if s.lastKind == "stalled" && s.stage == 3 && len(s.clients) == 2 && s.clients[0].dialled && !s.clients[0].established && s.clients[0].estErr != nil {
		x.Failf("client-starved-by-stalled-handshake", "%s dialled and was never established although Close only came 2 s after the other client's handshake had stalled: %v %s", s.clients[0].name, s.clients[0].estErr, hist)
	}
	if !s.lasRet {
		x.Failf("serve-not-returned", "ListenAndServe did not return after Close %s", hist)
	} else if !errors.Is(s.lasErr, lime.ErrServerClosed) {
		x.Failf("serve-wrong-error", "ListenAndServe returned %v, want ErrServerClosed %s", s.lasErr, hist)
	}
	for _, g := range res.Alive {
		if g.Name == "main" {
			continue
		}
		if strings.Contains(g.Name, "body.func") {
			// harness clients have their own deadlines; a client that was never
			// accepted is not the subject of this property
			continue
		}
		onClientEnd := false
		for _, cc := range s.pl.Clients {
			if cc.ParkedHere(g) {
				onClientEnd = true // e.g. the helper goroutine of a client-side WebSocket Receive
			}
		}
		if onClientEnd {
			continue
		}
		x.Failf("goroutine-left:"+g.Name+"["+g.PendTag()+"]", "server goroutine %s (%s) left behind after Close %s", g.Name, g.PendTag(), hist)
	}
	for i, sc := range s.pl.Servers {
		// connections the server started to serve (it read the client's first envelope)
		if sc.BytesRead > s.pl.Base[i] && !sc.IsClosed() {
			x.Failf("server-conn-open", "server end of connection %d was never closed %s", i, hist)
		} else if s.pl.WasAccepted(i) && !sc.IsClosed() {
			// taken over by the server's accept loop and then dropped (e.g. left in its backlog)
			x.Failf("accepted-conn-open", "connection %d was accepted by the server, never served and never closed %s", i, hist)
		}
	}
	if s.stalled != nil && s.closeRet && s.stalled.PeerBytesRead() > 0 {
		if !s.stalledEnded || s.stalledClosedAt-s.closeAt > 6*time.Second {
			x.Failf("handshake-outlives-close", "a handshake in progress was not released within the I/O poll interval after Close (Close returned at %v, the stalled client saw the end at %v) %s", s.closeAt, s.stalledClosedAt, hist)
		}
	}
	for _, c := range s.clients {
		if c.established && c.dropped {
			if s.est[c.sid] != 1 || s.fin[c.sid] != 1 {
				x.Failf(fmt.Sprintf("callbacks:est%d-fin%d:dropped", s.est[c.sid], s.fin[c.sid]), "session %s of %s was established and then dropped by the client: Established fired %d times, Finished %d times %s", c.sid, c.name, s.est[c.sid], s.fin[c.sid], hist)
			}
		} else if c.established {
			want := lime.SessionStateFinished
			if c.cbFail {
				want = lime.SessionStateFailed
			}
			if !c.streamsDone || c.finalState != want {
				x.Failf("client-not-finished", "%s had an established session but observed state %v (streams ended=%v) %s", c.name, c.finalState, c.streamsDone, hist)
			}
			if s.est[c.sid] != 1 || s.fin[c.sid] != 1 {
				x.Failf(fmt.Sprintf("callbacks:est%d-fin%d:established", s.est[c.sid], s.fin[c.sid]), "session %s of %s was established: Established fired %d times, Finished %d times %s", c.sid, c.name, s.est[c.sid], s.fin[c.sid], hist)
			}
		}
	}
	// callbacks only for sessions that were established (as seen by their client)
	known := map[string]bool{}
	for _, c := range s.clients {
		if c.established {
			known[c.sid] = true
		}
	}
	for id, n := range s.est {
		if !known[id] {
			// the server may have established a session whose client had not yet read the
			// established envelope when everything ended; then Finished must still match
			if s.fin[id] != n {
				x.Failf(fmt.Sprintf("callbacks:est%d-fin%d:unobserved", n, s.fin[id]), "session %s: Established fired %d times, Finished %d times %s", id, n, s.fin[id], hist)
			}
		}
		if n != 1 {
			x.Failf("established-callback-repeated", "Established fired %d times for %s %s", n, id, hist)
		}
	}
	for id, n := range s.fin {
		if s.est[id] == 0 {
			x.Failf("finished-without-established", "Finished fired %d times for session %s that was never announced as established %s", n, id, hist)
		}
	}
	// ordering per session: est < handler* < fin
	pos := map[string][3]int{}
	for i, e := range s.order {
		k := strings.SplitN(e, ":", 2)
		p := pos[k[1]]
		switch k[0] {
		case "est":
			p[0] = i + 1
		case "handler":
			if p[0] == 0 {
				x.Failf("handler-before-established", "a handler ran for %s before Established %s", k[1], hist)
			}
			if p[2] != 0 {
				x.Failf("handler-after-finished", "a handler ran for %s after Finished %s", k[1], hist)
			}
		case "fin":
			p[2] = i + 1
		}
		pos[k[1]] = p
	}
}

func main() {
	opt := rt.Options{NoExplore: true, Horizon: 300 * time.Second, MaxSteps: 100000, BoundAll: true, NoTimerDeviation: true}
	mk := func(name string, n int, inproc bool, q, t int) harness.Scenario {
		return harness.Scenario{Name: name, Opt: opt, Quick: q, Thorough: t, Prune: false, Body: body(n, inproc, strings.Contains(name, "ws")), Final: final}
	}
	harness.Main(harness.Check{
		Property: "C18",
		Level:    "model_checking",
		Rule:     "1-2 clients (real ClientChannel over the real TCP transport on virtual pipes; optionally one over the in-process listener or over a WebSocket connection); the last client is a normal session, one the server refuses (unknown role), a raw client whose handshake stalls after the server's first answer, a client that drops its connection once established, or one whose session the application finishes/fails from inside its Established callback x moment at which Server.Close is released {start-up, a client dialled, a client established, traffic handled, from inside the message handler, from inside the Established callback} x {idle, one message} as data choices; all schedules within the deviation bound (delay bounding) from ListenAndServe's start; distinct outcome = distinct observation log",
		Assume:   []string{"state pruning is off (Server.shutdown and Client fields are not behind hooked operations)", "real TCP/WebSocket listeners (OS sockets, HTTP server) are not explored under the scheduler: connections reach the server through the pipe listener"},
		Scenarios: []harness.Scenario{
			mk("1client", 1, false, 1, 2),
			mk("2clients", 2, false, 1, 2),
			mk("2clients/ws+pipe", 2, false, 1, 1),
			mk("2clients/inproc+pipe", 2, true, 0, 1),
		},
	})
}
